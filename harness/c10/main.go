// C10 — the resolved build list is the minimal-version-selection solution.
//
// Bounded-exhaustive: ALL universes over P projects x V versions in which every
// (project, version) requires at most one version of each other project, x every root
// requirement set with at most one version per project, plus every root set that names ONE
// project under two or three requirement names at different versions. Each pair is resolved
// by the real mvs.BuildList five times — cold cache, same resolver again, new resolver on the
// warm cache directory, root requirement names renamed, and a second cold cache with every
// dawn.toml's declaration order (and the tag listing order) reversed — (eight times when a
// project is named twice: Go's map iteration order is random) and compared with an
// independent breadth-first reachability + semver-maximum reference.
//
// Family "interrupted fetch": single-project repositories whose checkout is written one file
// at a time (a stale legacy .dawnconfig with different requirements first, then dawn.toml,
// then ordinary files). For every reachable project version and every k, a CHILD PROCESS
// downloads it into the shared cache directory and really dies after the k-th file; then
// the parent resolves with a fresh Resolver on that cache directory. And without a crash: a
// second Resolver resolves while the first one's download is parked between two files.
package main

import (
	"context"
	"encoding/json"
	"flag"
	"fmt"
	"os"
	"os/exec"
	"path/filepath"
	"sort"
	"time"

	"github.com/pgavlin/dawn/internal/mvs"
	"github.com/pgavlin/dawn/internal/project"
	"github.com/pgavlin/dawn/internal/verif/mvsfake"
	"github.com/pgavlin/dawn/internal/verif/vlib"
	"golang.org/x/mod/semver"
)

var fChild = flag.String("c10-child", "", "internal: crash child specification file")

type item struct {
	fam    int
	lo, hi int64
}

type replay struct {
	Family   string         `json:"family"`
	Index    int64          `json:"universe_index"`
	Universe map[string]any `json:"universe"`
	Roots    []string       `json:"roots"`
	Run      string         `json:"run"`
	Got      string         `json:"got"`
	Want     string         `json:"reference"`
	Spec     any            `json:"spec"`
}

func natName(p string) string {
	base, major := mvsfake.SplitMajor(p)
	n := filepath.Base(base)
	if major != "" {
		n += "@" + major
	}
	return n
}

// config builds the root configuration. A project named more than once gets the names
// <base>, <base>_2, <base>_3. flip inserts the requirements into the map in reverse order
// (the iteration order of a small Go map is a random rotation of its insertion order).
// curSpelling != "": the root configuration is written as a dawn.toml with non-canonically
// spelled requirement paths and read back through dawn's configuration loader, like the CLI.
var curSpelling string

func config(roots []mvsfake.Req, renamed, flip bool) *project.Config {
	c := &project.Config{Requirements: map[string]project.RequirementConfig{}}
	if curSpelling != "" {
		var b []byte
		for i, r := range roots {
			name := fmt.Sprintf("%s_%d", filepath.Base(r.Path), i)
			if renamed {
				name = fmt.Sprintf("z%d", len(roots)-i)
			}
			if i == 0 {
				b = append(b, "[requirements]\n"...)
			}
			b = append(b, fmt.Sprintf("%s = {path = %q, version = %q}\n", name, mvsfake.SpellPath(r.Path, curSpelling), r.Version)...)
		}
		cfg, err := project.LoadConfigBytes(b)
		if err != nil {
			vlib.Fatalf("root configuration does not load: %v\n%s", err, b)
		}
		if cfg.Requirements == nil {
			cfg.Requirements = map[string]project.RequirementConfig{}
		}
		return cfg
	}
	names := make([]string, len(roots))
	seen := map[string]int{}
	for i, r := range roots {
		name := natName(r.Path)
		seen[r.Path]++
		if n := seen[r.Path]; n > 1 {
			name = fmt.Sprintf("%s_%d", name, n)
		}
		if renamed {
			// names whose sorted order is the reverse of the path order, and that are not paths' base names
			name = fmt.Sprintf("z%d", len(roots)-i)
		}
		names[i] = name
	}
	for k := range roots {
		i := k
		if flip {
			i = len(roots) - 1 - k
		}
		c.Requirements[names[i]] = project.RequirementConfig{Path: roots[i].Path, Version: roots[i].Version}
	}
	return c
}

func hasDup(roots []mvsfake.Req) bool {
	seen := map[string]bool{}
	for _, r := range roots {
		if seen[r.Path] {
			return true
		}
		seen[r.Path] = true
	}
	return false
}

// diff names the first discrepancy between a result and the reference.
func diff(got, want map[string]string) (string, string) {
	var ks []string
	for k := range want {
		ks = append(ks, k)
	}
	sort.Strings(ks)
	for _, k := range ks {
		g, ok := got[k]
		if !ok {
			return "missing-project", fmt.Sprintf("%s missing (reference %s)", k, want[k])
		}
		if g != want[k] {
			if semver.Compare(g, want[k]) < 0 {
				return "wrong-version:too-low", fmt.Sprintf("%s at %s, reference %s", k, g, want[k])
			}
			return "wrong-version:too-high", fmt.Sprintf("%s at %s, reference %s", k, g, want[k])
		}
	}
	ks = ks[:0]
	for k := range got {
		ks = append(ks, k)
	}
	sort.Strings(ks)
	for _, k := range ks {
		if _, ok := want[k]; !ok {
			return "extra-project", fmt.Sprintf("%s@%s is not reachable", k, got[k])
		}
	}
	return "", ""
}

// ---- pseudo-version family ------------------------------------------------------------------------

type customFam struct {
	count    int64
	universe func(i int64) *mvsfake.Universe
	rootSets [][]mvsfake.Req
	desc     any
	allPairs bool // no reduction to canonical pairs (unreachable decoy tags carry requirements on purpose)
}

// equalPrecedenceFamily: project x carries three tags of EQUAL semver precedence on three
// different commits with different dawn.toml contents: x/v1.2, x/v1.2.0 and x/v1.2.0+hotfix
// (all six assignments of the tags to revisions 1..3; each content requires none / y / z).
// u@v1.0.0 requires x@v1.2.0. A request for x@v1.2.0 must be answered from exactly the commit
// tagged x/v1.2.0.
func equalPrecedenceFamily() *customFam {
	const addr = "example.com"
	px, py, pz, pu := addr+"/x", addr+"/y", addr+"/z", addr+"/u"
	tags := []string{"v1.2", "v1.2.0", "v1.2.0+hotfix"}
	perms := [][3]int{{1, 2, 3}, {1, 3, 2}, {2, 1, 3}, {2, 3, 1}, {3, 1, 2}, {3, 2, 1}}
	f := &customFam{count: 6 * 27, allPairs: true, desc: map[string]any{"x": tags, "u": "v1.0.0 requires x@v1.2.0", "y": "v1.0.0", "z": "v1.0.0"}}
	f.universe = func(i int64) *mvsfake.Universe {
		perm := perms[i%6]
		i /= 6
		r := mvsfake.RepoSpec{Addr: addr, NRevs: 6, Branches: map[string]int{"main": 6}, Default: "main"}
		for k, tg := range tags {
			var rq []mvsfake.Req
			switch i % 3 {
			case 1:
				rq = []mvsfake.Req{{Path: py, Version: "v1.0.0"}}
			case 2:
				rq = []mvsfake.Req{{Path: pz, Version: "v1.0.0"}}
			}
			i /= 3
			r.Tags = append(r.Tags, mvsfake.Tag{Dir: "x", Version: tg, Rev: perm[k], Requires: rq})
		}
		r.Tags = append(r.Tags, mvsfake.Tag{Dir: "y", Version: "v1.0.0", Rev: 4}, mvsfake.Tag{Dir: "z", Version: "v1.0.0", Rev: 5},
			mvsfake.Tag{Dir: "u", Version: "v1.0.0", Rev: 6, Requires: []mvsfake.Req{{Path: px, Version: "v1.2.0"}}})
		return &mvsfake.Universe{Repos: []mvsfake.RepoSpec{r}}
	}
	x, u, y, z := mvsfake.Req{Path: px, Version: "v1.2.0"}, mvsfake.Req{Path: pu, Version: "v1.0.0"}, mvsfake.Req{Path: py, Version: "v1.0.0"}, mvsfake.Req{Path: pz, Version: "v1.0.0"}
	f.rootSets = [][]mvsfake.Req{{x}, {u}, {u, y}, {x, z}, {z, u, x}}
	return f
}

// nonCanonicalFamily: a@v1.0.0 and b@v1.0.0 both require x, each at one of v1.2.0,
// v1.2.0+hotfix, v1.2, v01.2.0 (x carries the tags v1.2.0 and v1.2.0+hotfix on different
// commits with different requirements). A dawn.toml with a non-canonical requirement version
// is rejected by the configuration loader: the only admissible outcome is an error, whichever
// requirer is downloaded first.
func nonCanonicalFamily() *customFam {
	const addr = "example.com"
	px, py, pz, pa, pb := addr+"/x", addr+"/y", addr+"/z", addr+"/a", addr+"/b"
	vers := []string{"v1.2.0", "v1.2.0+hotfix", "v1.2", "v01.2.0"}
	f := &customFam{count: 16, allPairs: true, desc: map[string]any{"a,b require x at": vers, "x": []string{"v1.2.0", "v1.2.0+hotfix"}}}
	f.universe = func(i int64) *mvsfake.Universe {
		va, vb := vers[i%4], vers[i/4%4]
		r := mvsfake.RepoSpec{Addr: addr, NRevs: 6, Branches: map[string]int{"main": 6}, Default: "main", Tags: []mvsfake.Tag{
			{Dir: "a", Version: "v1.0.0", Rev: 1, Requires: []mvsfake.Req{{Path: px, Version: va}}},
			{Dir: "b", Version: "v1.0.0", Rev: 2, Requires: []mvsfake.Req{{Path: px, Version: vb}}},
			{Dir: "x", Version: "v1.2.0", Rev: 3, Requires: []mvsfake.Req{{Path: py, Version: "v1.0.0"}}},
			{Dir: "x", Version: "v1.2.0+hotfix", Rev: 4, Requires: []mvsfake.Req{{Path: pz, Version: "v1.0.0"}}},
			{Dir: "y", Version: "v1.0.0", Rev: 5},
			{Dir: "z", Version: "v1.0.0", Rev: 6},
		}}
		return &mvsfake.Universe{Repos: []mvsfake.RepoSpec{r}}
	}
	a, b := mvsfake.Req{Path: pa, Version: "v1.0.0"}, mvsfake.Req{Path: pb, Version: "v1.0.0"}
	f.rootSets = [][]mvsfake.Req{{a, b}, {b, a}, {a}, {b}}
	return f
}

// pseudoFamily: one repository on a well-known host (github.com/o/r) with the projects a, b
// (each: tag v1.0.0 and, at the untagged head revision 5, different content that is named by a
// pseudo-version) and the leaves y, z. Every a-node requires none / b@v1.0.0 / b@<pseudo> and
// none / y; every b-node requires none / a@v1.0.0 / a@<pseudo> and none / z: 6^4 universes.
// Roots: a, b each absent / tag / pseudo-version, y absent / present. Which project of the
// repository the resolver looks up first follows from the roots and the edges.
func pseudoFamily() *customFam {
	const addr = "github.com/o/r"
	pa, pb, py, pz := addr+"/a", addr+"/b", addr+"/y", addr+"/z"
	skeleton := func() mvsfake.RepoSpec {
		return mvsfake.RepoSpec{Addr: addr, NRevs: 5, Branches: map[string]int{"main": 5}, Default: "main"}
	}
	// the pseudo-versions of a and b at revision 5 (their closest tag is v1.0.0)
	sk := skeleton()
	sk.Tags = []mvsfake.Tag{{Dir: "a", Version: "v1.0.0", Rev: 1}, {Dir: "b", Version: "v1.0.0", Rev: 2}, {Dir: "a", Rev: 5}, {Dir: "b", Rev: 5}}
	w0 := mvsfake.Build(&mvsfake.Universe{Repos: []mvsfake.RepoSpec{sk}})
	psA, psB := w0.VersionAt(pa, 5), w0.VersionAt(pb, 5)
	aVers, bVers := []string{"", "v1.0.0", psA}, []string{"", "v1.0.0", psB}
	f := &customFam{count: 6 * 6 * 6 * 6, desc: map[string]any{"repository": addr, "a": aVers[1:], "b": bVers[1:], "y": "v1.0.0", "z": "v1.0.0",
		"history": "rev1 a/v1.0.0, rev2 b/v1.0.0, rev3 y/v1.0.0, rev4 z/v1.0.0, rev5 untagged new content of a and b"}}
	f.universe = func(i int64) *mvsfake.Universe {
		r := skeleton()
		node := func(other string, otherVers []string, leaf string) []mvsfake.Req {
			d := int(i % 6)
			i /= 6
			var rq []mvsfake.Req
			if v := otherVers[d%3]; v != "" {
				rq = append(rq, mvsfake.Req{Path: other, Version: v})
			}
			if d/3 == 1 {
				rq = append(rq, mvsfake.Req{Path: leaf, Version: "v1.0.0"})
			}
			return rq
		}
		r.Tags = []mvsfake.Tag{
			{Dir: "a", Version: "v1.0.0", Rev: 1, Requires: node(pb, bVers, py)},
			{Dir: "b", Version: "v1.0.0", Rev: 2, Requires: node(pa, aVers, pz)},
			{Dir: "y", Version: "v1.0.0", Rev: 3},
			{Dir: "z", Version: "v1.0.0", Rev: 4},
			{Dir: "a", Rev: 5, Requires: node(pb, bVers, py)},
			{Dir: "b", Rev: 5, Requires: node(pa, aVers, pz)},
		}
		return &mvsfake.Universe{Repos: []mvsfake.RepoSpec{r}}
	}
	for _, a := range aVers {
		for _, b := range bVers {
			for _, y := range []string{"", "v1.0.0"} {
				var s []mvsfake.Req
				if y != "" {
					s = append(s, mvsfake.Req{Path: py, Version: y})
				}
				if a != "" {
					s = append(s, mvsfake.Req{Path: pa, Version: a})
				}
				if b != "" {
					s = append(s, mvsfake.Req{Path: pb, Version: b})
				}
				f.rootSets = append(f.rootSets, s)
			}
		}
	}
	return f
}

// ---- crash child --------------------------------------------------------------------------------

type childSpec struct {
	Universe *mvsfake.Universe `json:"universe"`
	Module   mvsfake.Req       `json:"module"`
	DieAfter int               `json:"die_after_files"`
	CacheDir string            `json:"cache_dir"`
	TmpDir   string            `json:"tmp_dir"`
}

// runChild downloads one project version into the cache and dies after the k-th file.
func runChild(path string) {
	b, err := os.ReadFile(path)
	if err != nil {
		fmt.Fprintln(os.Stderr, "child:", err)
		os.Exit(2)
	}
	var cs childSpec
	if err := json.Unmarshal(b, &cs); err != nil {
		fmt.Fprintln(os.Stderr, "child:", err)
		os.Exit(2)
	}
	os.Setenv("TMPDIR", cs.TmpDir)
	w := mvsfake.Build(cs.Universe)
	w.SetHooks(&mvsfake.Hooks{DieAfterFiles: cs.DieAfter, ParkAfterFiles: -1})
	res := mvs.NewResolver(cs.CacheDir, w.Dialer(), nil)
	_, err = res.FetchProject(context.Background(), project.RequirementConfig{Path: cs.Module.Path, Version: cs.Module.Version})
	if err != nil {
		fmt.Fprintln(os.Stderr, "child: fetch returned:", err)
		os.Exit(4)
	}
	os.Exit(0) // the crash point lies beyond the download
}

// ---- the check ------------------------------------------------------------------------------------

type checker struct {
	r   *vlib.Run
	g   *mvsfake.Guard
	ctx context.Context
	n   int
}

type pairCtx struct {
	f     *mvsfake.Family
	ui    int64
	u     *mvsfake.Universe
	w     *mvsfake.World
	roots []mvsfake.Req
	ref   *mvsfake.BuildInfo
	t     *mvsfake.Tally
	size  int
}

func (p *pairCtx) rootStr() []string {
	s := []string{}
	for _, q := range p.roots {
		s = append(s, q.String())
	}
	return s
}

func (p *pairCtx) mk(run, got string) func() any {
	return func() any {
		return replay{p.f.Name, p.ui, p.u.Compact(), p.rootStr(), run, got, mvsfake.FormatList(p.ref.List), p.u}
	}
}

// resolve runs the real BuildList once. ok=false: hang/panic/error (already reported under
// sigPrefix) or skipped.
func (c *checker) resolve(p *pairCtx, run string, res *mvs.Resolver, cfg *project.Config, errSig string) (map[string]string, bool) {
	out, err, st := c.g.Run(p.t, "build-list", func() (any, error) { return mvs.BuildList(c.ctx, cfg, res) })
	p.t.Add("evaluations", 1)
	switch st {
	case mvsfake.Skipped:
		return nil, false
	case mvsfake.Hung:
		p.t.Violation("C10:hang", p.size, fmt.Sprintf("BuildList did not return within 10s (%s), roots %v", run, p.rootStr()), p.mk(run, "no result"))
		return nil, false
	case mvsfake.Panicked:
		p.t.Violation("C10:panic", p.size, fmt.Sprintf("BuildList panicked (%s): %v", run, err), p.mk(run, err.Error()))
		return nil, false
	}
	if err != nil {
		p.t.Violation(errSig, p.size, fmt.Sprintf("[%s] BuildList failed on a resolvable universe (%s), roots %v: %v", p.f.Name, run, p.rootStr(), err), p.mk(run, err.Error()))
		return nil, false
	}
	got := map[string]string{}
	for k, v := range out.(map[string]string) {
		got[k] = v
	}
	// the root project reports itself as ""->"": accepted, not required
	if v, ok := got[""]; ok {
		if v != "" {
			p.t.Violation("C10:root-entry", p.size, fmt.Sprintf("root entry has version %q", v), p.mk(run, mvsfake.FormatList(got)))
		}
		delete(got, "")
		p.t.Add("root-self-entries", 1)
	}
	return got, true
}

func (c *checker) freshDir(name string) string {
	d := filepath.Join(c.r.Scratch, name)
	os.RemoveAll(d)
	os.MkdirAll(d, 0o755)
	return d
}

// pair: the 5 (8) resolutions of one (universe, roots) pair.
func (c *checker) pair(p *pairCtx, wr **mvsfake.World) {
	t, w, roots, ref := p.t, p.w, p.roots, p.ref
	dup := hasDup(roots)
	reachKeys := map[string]bool{}
	for m := range ref.Reach {
		reachKeys[w.FetchKey(m)] = true
	}
	c.n++
	cacheDir := c.freshDir(fmt.Sprintf("cache-%d", c.n%2))
	type runT struct {
		name  string
		world *mvsfake.World
		res   *mvs.Resolver
		cfg   *project.Config
		cold  bool
	}
	res1 := mvs.NewResolver(cacheDir, w.Dialer(), nil)
	runs := []runT{
		{"cold", w, res1, config(roots, false, true), true},
		{"same-resolver-again", w, res1, config(roots, false, false), false},
		{"new-resolver-warm-cache-dir", w, mvs.NewResolver(cacheDir, w.Dialer(), nil), config(roots, false, true), false},
		{"renamed-requirements", w, mvs.NewResolver(cacheDir, w.Dialer(), nil), config(roots, true, true), false},
		{"reversed-declaration-order-cold", nil, nil, config(roots, false, true), true},
	}
	if dup {
		// the same configuration again, with fresh resolvers: the order in which a Go map is
		// iterated differs from run to run
		for i := 0; i < 3; i++ {
			runs = append(runs, runT{fmt.Sprintf("repetition-%d", i+1), w, mvs.NewResolver(cacheDir, w.Dialer(), nil), config(roots, i == 1, i != 2), false})
		}
	}
	firstOK := false
	wrongDir := "" // a (directory, revision) that was downloaded although no reachable node lives there
	for ri := range runs {
		run := runs[ri]
		if run.world == nil {
			if *wr == nil {
				ur := *p.u
				ur.ReverseDecl = !p.u.ReverseDecl
				*wr = mvsfake.Build(&ur)
			}
			run.world = *wr
			run.res = mvs.NewResolver(c.freshDir(fmt.Sprintf("cache-%dr", c.n%2)), run.world.Dialer(), nil)
		}
		before := run.world.Fetches()
		run.world.TakeFetchLog()
		got, ok := c.resolve(p, run.name+" run", run.res, run.cfg, "C10:error")
		if !ok {
			return
		}
		fetched := run.world.Fetches() - before
		if run.cold {
			t.Add("downloads-cold", fetched)
		} else {
			t.Add("downloads-warm", fetched)
		}
		for _, l := range run.world.TakeFetchLog() {
			if !reachKeys[l] {
				// a download of an unreachable node: the canonical-pair reduction would be unsound
				t.Add("downloads-beyond-reachable", 1)
				wrongDir = l
			}
		}
		kind, detail := diff(got, ref.List)
		if kind == "" {
			if ri == 0 {
				firstOK = true
			}
			continue
		}
		sig := "C10:" + kind
		switch {
		case wrongDir != "":
			// cause: the resolver downloaded some other (directory, revision) in place of a
			// reachable project version and read its requirements
			sig = "C10:wrong-directory-downloaded"
			detail += "; downloaded " + wrongDir + " (<repository>/<directory>@<revision>), which is no reachable project version"
		case dup:
			// cause: a project required under several names; which version wins must not depend
			// on the order in which the requirement map happens to be iterated
			sig = "C10:duplicate-root-path:" + kind
		case ri > 0 && firstOK:
			switch run.name {
			case "same-resolver-again", "new-resolver-warm-cache-dir":
				sig = "C10:cache-dependent"
			case "renamed-requirements":
				sig = "C10:name-dependent"
			default:
				sig = "C10:order-dependent"
			}
		}
		t.Violation(sig, p.size, fmt.Sprintf("[%s, %s run] roots %v: %s; got %s", p.f.Name, run.name, p.rootStr(), detail, mvsfake.FormatList(got)), p.mk(run.name, mvsfake.FormatList(got)))
		return
	}
}

// interrupted: crash points and parked downloads for one (universe, roots) pair.
func (c *checker) interrupted(p *pairCtx) {
	t, w, ref := p.t, p.w, p.ref
	var nodes []mvsfake.Req
	for m := range ref.Reach {
		nodes = append(nodes, m)
	}
	sort.Slice(nodes, func(i, j int) bool { return nodes[i].String() < nodes[j].String() })
	tmp := os.Getenv("TMPDIR")
	for _, m := range nodes {
		nf := w.CheckoutFiles(m)
		for k := 0; k <= nf; k++ {
			// (1) crash: a child process dies after the k-th file of the download of m
			cacheDir := c.freshDir("cache-crash")
			os.RemoveAll(tmp)
			os.MkdirAll(tmp, 0o755)
			specPath := filepath.Join(c.r.Scratch, "child.json")
			b, _ := json.Marshal(childSpec{Universe: p.u, Module: m, DieAfter: k, CacheDir: cacheDir, TmpDir: tmp})
			if err := os.WriteFile(specPath, b, 0o644); err != nil {
				vlib.Fatalf("%v", err)
			}
			cmd := exec.Command(os.Args[0], "-c10-child", specPath)
			out, err := cmd.CombinedOutput()
			code := 0
			if ee, ok := err.(*exec.ExitError); ok {
				code = ee.ExitCode()
			} else if err != nil {
				vlib.Fatalf("crash child: %v", err)
			}
			if code != mvsfake.DieExitCode {
				vlib.Fatalf("crash child for %v k=%d exited with %d, expected death (%d): %s", m, k, code, mvsfake.DieExitCode, out)
			}
			t.Add("crash-points", 1)
			t.Outcome("crash-classes", fmt.Sprintf("files-written=%d/%d", k, nf))
			run := fmt.Sprintf("fresh resolver after a process died downloading %s with %d of %d files written", m, k, nf)
			got, ok := c.resolve(p, run, mvs.NewResolver(cacheDir, w.Dialer(), nil), config(p.roots, false, false), "C10:cache-dependent:interrupted-fetch")
			if ok {
				if kind, detail := diff(got, ref.List); kind != "" {
					t.Violation("C10:cache-dependent:interrupted-fetch", p.size+k, fmt.Sprintf("[%s] roots %v, %s: %s (%s); got %s", p.f.Name, p.rootStr(), run, detail, kind, mvsfake.FormatList(got)), p.mk(run, mvsfake.FormatList(got)))
				}
			}

			// (2) no crash: a second resolver resolves while the first one's download of m is
			// parked after the k-th file
			cacheDir = c.freshDir("cache-park")
			wp := mvsfake.Build(p.u)
			h := &mvsfake.Hooks{DieAfterFiles: -1, ParkAfterFiles: k, Parked: make(chan struct{}, 1), Release: make(chan struct{})}
			wp.SetHooks(h)
			first := mvs.NewResolver(cacheDir, wp.Dialer(), nil)
			done := make(chan error, 1)
			go func() {
				_, err := first.FetchProject(c.ctx, project.RequirementConfig{Path: m.Path, Version: m.Version})
				done <- err
			}()
			select {
			case <-h.Parked:
			case err := <-done:
				vlib.Fatalf("parked download of %v finished without parking: %v", m, err)
			case <-time.After(10 * time.Second):
				vlib.Fatalf("parked download of %v never reached file %d", m, k)
			}
			t.Add("interleavings", 1)
			run = fmt.Sprintf("second resolver while another download of %s is parked with %d of %d files written", m, k, nf)
			got, ok = c.resolve(p, run, mvs.NewResolver(cacheDir, wp.Dialer(), nil), config(p.roots, false, false), "C10:cache-dependent:concurrent-fetch")
			close(h.Release)
			if ok {
				if kind, detail := diff(got, ref.List); kind != "" {
					t.Violation("C10:cache-dependent:concurrent-fetch", p.size+k, fmt.Sprintf("[%s] roots %v, %s: %s (%s); got %s", p.f.Name, p.rootStr(), run, detail, kind, mvsfake.FormatList(got)), p.mk(run, mvsfake.FormatList(got)))
				}
			}
			select {
			case <-done:
			case <-time.After(10 * time.Second):
				t.Violation("C10:hang", p.size, "a released download did not finish within 10s", p.mk(run, "no result"))
				continue
			}
			// and the first resolver, whose download lost the race, must also see the right answer
			if got, ok := c.resolve(p, "first resolver after its parked download was released", first, config(p.roots, false, false), "C10:cache-dependent:concurrent-fetch"); ok {
				if kind, detail := diff(got, ref.List); kind != "" {
					t.Violation("C10:cache-dependent:concurrent-fetch", p.size+k, fmt.Sprintf("[%s] roots %v, first resolver after release: %s (%s); got %s", p.f.Name, p.rootStr(), detail, kind, mvsfake.FormatList(got)), p.mk(run, mvsfake.FormatList(got)))
				}
			}
		}
	}
}

// invalidPair: some reachable dawn.toml names a non-canonical requirement version. Every
// resolution must fail: cold, warm, reversed declaration order, and with the download of each
// reachable project version parked until all the others have finished.
func (c *checker) invalidPair(p *pairCtx) {
	t := p.t
	const sig = "C10:non-canonical-requirement-version-accepted"
	judge := func(run string, bl map[string]string, err error) {
		t.Add("evaluations", 1)
		t.Add("resolutions-that-must-fail", 1)
		if err != nil {
			t.Outcome("classes", p.f.Name+": rejected")
			return
		}
		got := map[string]string{}
		for k, v := range bl {
			if k != "" {
				got[k] = v
			}
		}
		t.Violation(sig, p.size, fmt.Sprintf("[%s] roots %v, %s: a reachable dawn.toml names a non-canonical requirement version, the resolution must fail; got %s", p.f.Name, p.rootStr(), run, mvsfake.FormatList(got)),
			p.mk(run, mvsfake.FormatList(got)))
	}
	guarded := func(run string, res *mvs.Resolver) bool {
		out, err, st := c.g.Run(t, "build-list", func() (any, error) { return mvs.BuildList(c.ctx, config(p.roots, false, false), res) })
		switch st {
		case mvsfake.Skipped:
			return false
		case mvsfake.Hung:
			t.Violation("C10:hang", p.size, fmt.Sprintf("BuildList did not return within 10s (%s), roots %v", run, p.rootStr()), p.mk(run, "no result"))
			return false
		case mvsfake.Panicked:
			t.Violation("C10:panic", p.size, fmt.Sprintf("BuildList panicked (%s): %v", run, err), p.mk(run, err.Error()))
			return false
		}
		bl, _ := out.(map[string]string)
		judge(run, bl, err)
		return true
	}
	cacheDir := c.freshDir("cache-inv")
	r1 := mvs.NewResolver(cacheDir, p.w.Dialer(), nil)
	if !guarded("cold run", r1) || !guarded("same-resolver-again run", r1) || !guarded("new-resolver-warm-cache-dir run", mvs.NewResolver(cacheDir, p.w.Dialer(), nil)) {
		return
	}
	ur := *p.u
	ur.ReverseDecl = !p.u.ReverseDecl
	wr := mvsfake.Build(&ur)
	if !guarded("reversed-declaration-order-cold run", mvs.NewResolver(c.freshDir("cache-invr"), wr.Dialer(), nil)) {
		return
	}
	// forced download orders: one reachable version is parked until the rest has settled
	var nodes []mvsfake.Req
	for m := range p.ref.Reach {
		if p.w.FetchKey(m) != "?" {
			nodes = append(nodes, m)
		}
	}
	sort.Slice(nodes, func(i, j int) bool { return nodes[i].String() < nodes[j].String() })
	type result struct {
		bl  map[string]string
		err error
	}
	for _, m := range nodes {
		wp := mvsfake.Build(p.u)
		h := &mvsfake.Hooks{DieAfterFiles: -1, ParkAfterFiles: 0, ParkKey: wp.FetchKey(m), Parked: make(chan struct{}, 1), Release: make(chan struct{})}
		wp.SetHooks(h)
		res := mvs.NewResolver(c.freshDir("cache-inv"), wp.Dialer(), nil)
		done := make(chan result, 1)
		go func() {
			bl, err := mvs.BuildList(c.ctx, config(p.roots, false, false), res)
			done <- result{bl, err}
		}()
		run := fmt.Sprintf("download of %s finishes last", m)
		select {
		case <-h.Parked:
			// let everything else finish: wait until no further download starts
			last, quiet := wp.Fetches(), 0
			for i := 0; i < 200 && quiet < 5; i++ {
				time.Sleep(time.Millisecond)
				if n := wp.Fetches(); n != last {
					last, quiet = n, 0
				} else {
					quiet++
				}
			}
			close(h.Release)
			t.Add("forced-download-orders", 1)
		case r := <-done:
			// the resolution failed before it got to m
			judge(run+" (never started)", r.bl, r.err)
			continue
		case <-time.After(10 * time.Second):
			t.Violation("C10:hang", p.size, "BuildList neither finished nor reached the parked download within 10s", p.mk(run, "no result"))
			close(h.Release)
			continue
		}
		select {
		case r := <-done:
			judge(run, r.bl, r.err)
		case <-time.After(10 * time.Second):
			t.Violation("C10:hang", p.size, "a released resolution did not finish within 10s", p.mk(run, "no result"))
		}
	}
}

// concurrent: several BuildList calls at the same time on ONE Resolver with cold caches.
func (c *checker) concurrent(p *pairCtx) {
	t, ref := p.t, p.ref
	const sig = "C10:concurrent-resolutions-on-shared-resolver"
	var nodes []mvsfake.Req
	for m := range ref.Reach {
		nodes = append(nodes, m)
	}
	sort.Slice(nodes, func(i, j int) bool { return nodes[i].String() < nodes[j].String() })
	type result struct {
		bl  map[string]string
		err error
	}
	start := func(res *mvs.Resolver, roots []mvsfake.Req, ch chan result) {
		go func() {
			bl, err := mvs.BuildList(c.ctx, config(roots, false, false), res)
			ch <- result{bl, err}
		}()
	}
	judge := func(pp *pairCtx, what string, r result) {
		t.Add("evaluations", 1)
		if r.err != nil {
			t.Violation(sig, pp.size, fmt.Sprintf("[%s] roots %v, %s: BuildList failed: %v", pp.f.Name, pp.rootStr(), what, r.err), pp.mk(what, r.err.Error()))
			return
		}
		got := map[string]string{}
		for k, v := range r.bl {
			if k != "" {
				got[k] = v
			}
		}
		if kind, detail := diff(got, pp.ref.List); kind != "" {
			t.Violation(sig, pp.size, fmt.Sprintf("[%s] roots %v, %s: %s (%s); got %s", pp.f.Name, pp.rootStr(), what, detail, kind, mvsfake.FormatList(got)), pp.mk(what, mvsfake.FormatList(got)))
		}
	}
	for _, m := range nodes {
		for variant := 0; variant < 2; variant++ {
			p2 := *p
			if variant == 1 {
				p2.roots = []mvsfake.Req{m}
				p2.ref = p.w.RefBuildList(p2.roots)
			}
			cacheDir := c.freshDir("cache-conc")
			wp := mvsfake.Build(p.u)
			h := &mvsfake.Hooks{DieAfterFiles: -1, ParkAfterFiles: 0, ParkKey: wp.FetchKey(m), Parked: make(chan struct{}, 1), Release: make(chan struct{})}
			wp.SetHooks(h)
			shared := mvs.NewResolver(cacheDir, wp.Dialer(), nil)
			first := make(chan result, 1)
			start(shared, p.roots, first)
			select {
			case <-h.Parked:
			case r := <-first:
				vlib.Fatalf("resolution of %v finished without downloading the reachable %v (err %v)", p.roots, m, r.err)
			case <-time.After(10 * time.Second):
				t.Violation("C10:hang", p.size, fmt.Sprintf("BuildList did not reach the download of %v within 10s, roots %v", m, p.rootStr()), p.mk("first of two concurrent resolutions", "no result"))
				close(h.Release)
				continue
			}
			t.Add("forced-concurrent-resolutions", 1)
			what := fmt.Sprintf("second resolution on the same resolver while the first one (roots %v) is inside the download of %s", p.rootStr(), m)
			second := make(chan result, 1)
			start(shared, p2.roots, second)
			select {
			case r := <-second:
				judge(&p2, what, r)
			case <-time.After(10 * time.Second):
				t.Violation("C10:hang", p.size, what+": no result within 10s", p2.mk(what, "no result"))
			}
			close(h.Release)
			select {
			case r := <-first:
				judge(p, fmt.Sprintf("first resolution, parked inside the download of %s while a second one ran on the same resolver", m), r)
			case <-time.After(10 * time.Second):
				t.Violation("C10:hang", p.size, "a released resolution did not finish within 10s", p.mk(what, "no result"))
			}
		}
	}
	// free-running
	for round := 0; round < 3; round++ {
		shared := mvs.NewResolver(c.freshDir("cache-conc"), p.w.Dialer(), nil)
		ch := make(chan result, 4)
		for i := 0; i < 4; i++ {
			start(shared, p.roots, ch)
		}
		t.Add("free-concurrent-rounds", 1)
		for i := 0; i < 4; i++ {
			select {
			case r := <-ch:
				judge(p, fmt.Sprintf("one of 4 free-running concurrent resolutions on one cold resolver (round %d)", round+1), r)
			case <-time.After(10 * time.Second):
				t.Violation("C10:hang", p.size, "concurrent resolutions did not finish within 10s", p.mk("free-running", "no result"))
				return
			}
		}
	}
}

func vo1c() mvsfake.ProjectDef {
	return mvsfake.ProjectDef{Dir: "c", Versions: []string{"v1.9.10", "v1.10.0"}}
}

func main() {
	flag.Parse()
	if *fChild != "" {
		runChild(*fChild)
		return
	}
	r := vlib.Start("C10")
	if r.ReplayIn != "" {
		vlib.Fatalf("replay files are self-describing (universe + roots); re-run the tier to reproduce")
	}
	tmp := filepath.Join(r.Scratch, "tmp")
	os.MkdirAll(tmp, 0o755)
	os.Setenv("TMPDIR", tmp) // FetchProject renames from the temp dir into the cache: same file system

	two := func(d string, a, b string) mvsfake.ProjectDef {
		return mvsfake.ProjectDef{Dir: d, Versions: []string{a, b}}
	}
	one := func(d string, a string) mvsfake.ProjectDef { return mvsfake.ProjectDef{Dir: d, Versions: []string{a}} }
	// version pairs chosen so that semver order differs from string order / involves a pre-release / spans v0-v1
	pa, pb := two("a", "v1.2.0", "v1.10.0"), two("b", "v1.0.0-rc.1", "v1.0.0")
	type famT struct {
		*mvsfake.Family
		dupRoots    bool // also root sets that name one project several times
		interrupted bool // the interrupted-fetch family: crash points and parked downloads
		custom      *customFam
		concurrent  bool // concurrent resolutions on one shared Resolver (forced by parking a download, and free-running)
	}
	var fams []famT
	if !r.Thorough() {
		fams = []famT{
			{&mvsfake.Family{Name: "2x2+1", Addr: "example.com", Projects: []mvsfake.ProjectDef{pa, pb, one("c", "v1.0.0")}}, true, false, nil, false},
			{&mvsfake.Family{Name: "2x2-split-repos", Addr: "example.com", Split: true, Projects: []mvsfake.ProjectDef{pa, pb}}, true, false, nil, false},
			{&mvsfake.Family{Name: "majors a,c,c@v2", Addr: "example.com", Projects: []mvsfake.ProjectDef{pa, one("c", "v1.0.0"), one("c", "v2.0.0")}}, true, false, nil, false},
			{&mvsfake.Family{Name: "majors-split", Addr: "example.com", Split: true, Projects: []mvsfake.ProjectDef{pa, one("c", "v1.0.0"), one("c", "v2.0.0")}}, true, false, nil, false},
			{&mvsfake.Family{Name: "interrupted fetch: 2x2, one repository per project, stale .dawnconfig", Addr: "example.com", Split: true, Stale: true, Projects: []mvsfake.ProjectDef{pa, pb}}, false, true, nil, false},
		}
	} else {
		fams = []famT{
			{&mvsfake.Family{Name: "3x2", Addr: "example.com", Projects: []mvsfake.ProjectDef{pa, pb, two("c", "v0.9.0", "v1.0.0")}}, false, false, nil, false},
			{&mvsfake.Family{Name: "majors a(2),b,c,c@v2", Addr: "example.com", Projects: []mvsfake.ProjectDef{pa, one("b", "v1.0.0"), one("c", "v1.0.0"), one("c", "v2.0.0")}}, false, false, nil, false},
			{&mvsfake.Family{Name: "2x2+1-split-repos", Addr: "example.com", Split: true, Projects: []mvsfake.ProjectDef{pa, pb, one("c", "v1.0.0")}}, true, false, nil, false},
			{&mvsfake.Family{Name: "majors c(2),c@v2(2),a", Addr: "github.com/o/r", Projects: []mvsfake.ProjectDef{two("c", "v1.0.0", "v1.1.0"), two("c", "v2.0.0", "v2.1.0"), one("a", "v0.1.0")}}, true, false, nil, false},
			{&mvsfake.Family{Name: "2x3", Addr: "example.com", Projects: []mvsfake.ProjectDef{
				{Dir: "a", Versions: []string{"v1.2.0", "v1.10.0", "v1.10.1"}},
				{Dir: "b", Versions: []string{"v0.9.0", "v1.0.0-rc.1", "v1.0.0"}}}}, true, false, nil, false},
			{&mvsfake.Family{Name: "interrupted fetch: 2x2, one repository per project, stale .dawnconfig", Addr: "example.com", Split: true, Stale: true, Projects: []mvsfake.ProjectDef{pa, pb}}, false, true, nil, false},
			{&mvsfake.Family{Name: "interrupted fetch: a(2),c,c@v2, one repository per directory, stale .dawnconfig", Addr: "example.com", Split: true, Stale: true, Projects: []mvsfake.ProjectDef{pa, one("c", "v1.0.0"), one("c", "v2.0.0")}}, false, true, nil, false},
		}
	}
	// version order: equal string length but different digit layout, multi-digit components,
	// numeric pre-release identifiers, a two-digit major
	vo1, vo2 := two("a", "v1.9.10", "v1.10.0"), two("b", "v1.2.10", "v1.10.2")
	fams = append(fams,
		famT{Family: &mvsfake.Family{Name: "version order: a(v1.9.10 v1.10.0), b(v1.2.10 v1.10.2)", Addr: "example.com", Projects: []mvsfake.ProjectDef{vo1, vo2}}, dupRoots: true},
		famT{Family: &mvsfake.Family{Name: "version order: p(v1.0.0-9.aa v1.0.0-10.a), q@v10(v10.9.10 v10.10.0)", Addr: "example.com",
			Projects: []mvsfake.ProjectDef{two("p", "v1.0.0-9.aa", "v1.0.0-10.a"), two("q", "v10.9.10", "v10.10.0")}}, dupRoots: true},
		famT{Family: &mvsfake.Family{Name: "version order: diamond and chain a, b, c(v1.9.10 v1.10.0)", Addr: "example.com",
			Projects: []mvsfake.ProjectDef{one("a", "v1.0.0"), one("b", "v1.0.0"), vo1c()}}, dupRoots: true},
		famT{Family: &mvsfake.Family{Name: "concurrent resolutions on one shared resolver: 2x2", Addr: "example.com", Projects: []mvsfake.ProjectDef{vo1, pb}}, concurrent: true},
		famT{Family: &mvsfake.Family{Name: "concurrent resolutions on one shared resolver: 2x2, one repository per project", Addr: "example.com", Split: true, Projects: []mvsfake.ProjectDef{pa, vo2}}, concurrent: true})
	if r.Thorough() {
		fams = append(fams,
			famT{Family: &mvsfake.Family{Name: "version order: 2x3 a(v1.9.10 v1.10.0 v1.10.9), b(v1.0.0-rc.9 v1.0.0-rc.10 v1.0.0)", Addr: "example.com", Projects: []mvsfake.ProjectDef{
				{Dir: "a", Versions: []string{"v1.9.10", "v1.10.0", "v1.10.9"}}, {Dir: "b", Versions: []string{"v1.0.0-rc.9", "v1.0.0-rc.10", "v1.0.0"}}}}, dupRoots: true},
			famT{Family: &mvsfake.Family{Name: "concurrent resolutions on one shared resolver: a(2), c, c@v2", Addr: "example.com", Projects: []mvsfake.ProjectDef{vo1, one("c", "v1.0.0"), one("c", "v2.0.0")}}, concurrent: true})
	}
	// requirement paths spelled non-canonically (but legally) in dependency and root dawn.toml
	// files: the graph, and so the build list, is that of the canonical spelling
	for _, sp := range []string{"major", "dot", "slash"} {
		fams = append(fams, famT{Family: &mvsfake.Family{Name: "requirement paths spelled non-canonically (" + sp + "): 2x2 chains and cycles", Addr: "example.com", Spell: sp, Projects: []mvsfake.ProjectDef{pa, pb}}})
	}
	fams = append(fams, famT{Family: &mvsfake.Family{Name: "requirement paths spelled non-canonically (major): diamond a, b, c(2)", Addr: "example.com", Spell: "major",
		Projects: []mvsfake.ProjectDef{one("a", "v1.0.0"), one("b", "v1.0.0"), vo1c()}}})
	fams = append(fams,
		famT{Family: &mvsfake.Family{Name: "tags of equal precedence on different commits: x/v1.2, x/v1.2.0, x/v1.2.0+hotfix"}, custom: equalPrecedenceFamily()},
		famT{Family: &mvsfake.Family{Name: "requirement versions that are not canonical (build metadata, short form, leading zero)"}, custom: nonCanonicalFamily()})
	fams = append(fams, famT{&mvsfake.Family{Name: "monorepo on a well-known host, tagged versions and pseudo-versions of untagged revisions"}, false, false, pseudoFamily(), false})
	fcount := func(f famT) int64 {
		if f.custom != nil {
			return f.custom.count
		}
		return f.Count()
	}
	funiverse := func(f famT, i int64) *mvsfake.Universe {
		if f.custom != nil {
			return f.custom.universe(i)
		}
		return f.Universe(i)
	}
	// items: chunks of universes, families interleaved so that a time cap cuts all of them evenly
	var perFam [][]item
	for fi, f := range fams {
		chunk := int64(400)
		if f.interrupted {
			chunk = 2 // every crash point is a child process
		}
		if f.concurrent {
			chunk = 4
		}
		var l []item
		for lo := int64(0); lo < fcount(f); lo += chunk {
			hi := lo + chunk
			if hi > fcount(f) {
				hi = fcount(f)
			}
			l = append(l, item{fi, lo, hi})
		}
		perFam = append(perFam, l)
	}
	var items []item
	for k := 0; ; k++ {
		any := false
		for _, l := range perFam {
			if k < len(l) {
				items = append(items, l[k])
				any = true
			}
		}
		if !any {
			break
		}
	}
	rootSets := make([][][]mvsfake.Req, len(fams))
	for i, f := range fams {
		if f.custom != nil {
			rootSets[i] = f.custom.rootSets
		} else if f.dupRoots {
			rootSets[i] = f.RootSetsDup()
		} else {
			rootSets[i] = f.RootSets()
		}
	}

	g := mvsfake.NewGuard(r, "C10", 10*time.Second, 3)
	r.OnCrash = g.OnCrash(func(idx int) any {
		it := items[idx]
		return map[string]any{"family": fams[it.fam].Name, "universes": []int64{it.lo, it.hi}}
	})
	c := &checker{r: r, g: g, ctx: context.Background()}

	r.Distribute(len(items), func(ii int) {
		it := items[ii]
		f := fams[it.fam]
		t := mvsfake.NewTally()
		g.BeginItem(ii)
		defer g.EndItem(t)
		if r.Expired() {
			t.Add("universes-not-run(time)", it.hi-it.lo)
			r.Cap("time budget reached before all universes were enumerated (see universes_enumerated / universes_total)")
			return
		}
		for ui := it.lo; ui < it.hi; ui++ {
			u := funiverse(f, ui)
			curSpelling = u.ReqSpelling
			w := mvsfake.Build(u)
			var wr *mvsfake.World
			t.Add("universes", 1)
			for _, roots := range rootSets[it.fam] {
				t.Add("pairs-represented", 1)
				ref := w.RefBuildList(roots)
				// (universe, roots) is represented by the pair in which every node that is NOT
				// reachable from the roots has no requirements: the resolver can only learn a
				// node's requirements by downloading it, and it is checked below that it
				// downloads reachable nodes only. (The stale .dawnconfig of the interrupted-fetch
				// family is a function of the requirements, so it is covered by the same rule.)
				canonical := true
				for _, repo := range u.Repos {
					for _, tg := range repo.Tags {
						if len(tg.Requires) == 0 {
							continue
						}
						mp, v := mvsfake.ModPath(repo.Addr, tg.Dir, tg.Version), tg.Version
						if v == "" {
							v = w.VersionAt(mp, tg.Rev) // untagged content: named by a pseudo-version
						}
						if !ref.Reach[mvsfake.Req{Path: mp, Version: v}] {
							canonical = false
						}
					}
				}
				if !canonical && !(f.custom != nil && f.custom.allPairs) {
					continue
				}
				if ref.Invalid {
					t.Add("pairs", 1)
					c.invalidPair(&pairCtx{f: f.Family, ui: ui, u: u, w: w, roots: roots, ref: ref, t: t, size: 10*u.Edges() + len(roots)})
					continue
				}
				if !ref.OK {
					vlib.Fatalf("generated universe has a dangling requirement")
				}
				t.Add("pairs", 1)
				if len(ref.List) >= 2 {
					t.Add("nontrivial", 1)
				}
				dup := hasDup(roots)
				if dup {
					t.Add("pairs-with-a-project-named-twice", 1)
				}
				t.Outcome("classes", fmt.Sprintf("%s: selected=%d reachable=%d conflict=%v cycle=%v twice=%v", f.Name, len(ref.List), len(ref.Reach), ref.Conflict, ref.Cycle, dup))
				t.Max("reachable-nodes", int64(len(ref.Reach)))
				p := &pairCtx{f: f.Family, ui: ui, u: u, w: w, roots: roots, ref: ref, t: t, size: 10*u.Edges() + len(roots)}
				if f.interrupted {
					c.interrupted(p)
				} else if f.concurrent {
					c.concurrent(p)
				} else {
					c.pair(p, &wr)
				}
				if (ui*31+int64(len(roots)))%20011 == 3 {
					t.Sample(map[string]any{"family": f.Name, "universe": u.Compact(), "roots": p.rootStr(), "reference": mvsfake.FormatList(ref.List)})
				}
			}
		}
	})
	if r.Get("downloads-beyond-reachable") > 0 {
		r.Cap("the resolver downloaded unreachable versions: the canonical-pair reduction does not cover those pairs")
	}
	mvsfake.EmitViolations(r)
	bounds := map[string]any{}
	total := int64(0)
	for i, f := range fams {
		bounds[f.Name] = map[string]any{"projects": f.Projects, "universes": fcount(f), "root_sets": len(rootSets[i]), "one_repo_per_project": f.Split,
			"root_sets_naming_a_project_twice": f.dupRoots, "crash_points_and_parked_downloads": f.interrupted, "concurrent_resolutions_on_a_shared_resolver": f.concurrent}
		if f.custom != nil {
			bounds[f.Name].(map[string]any)["projects"] = f.custom.desc
		}
		total += fcount(f)
	}
	r.Extra["universes_enumerated"] = r.Get("universes")
	r.Extra["universes_total"] = total
	r.Extra["pairs_represented"] = r.Get("pairs-represented")
	r.Extra["skipped_after_hang"] = r.Get("skipped-after-hang")
	r.Extra["forced_concurrent_resolutions"] = r.Get("forced-concurrent-resolutions")
	r.Extra["free_running_concurrent_rounds"] = r.Get("free-concurrent-rounds")
	r.Extra["crash_points"] = r.Get("crash-points")
	r.Extra["parked_download_interleavings"] = r.Get("interleavings")
	r.Extra["pairs_with_a_project_named_twice"] = r.Get("pairs-with-a-project-named-twice")
	r.Extra["outcome_classes"] = r.Outcomes("classes")
	r.Assumptions = []string{
		"BuildList reports the root project itself as \"\" -> \"\"; that entry is accepted and ignored, every other entry must equal the reference exactly",
		"a (universe, roots) pair is run once per class of universes that agree on the requirements of all nodes reachable from the roots (the representative gives unreachable nodes no requirements); sound because a node's requirements are only observable by downloading it, and the harness counts downloads beyond the reachable set (0 expected, else the run is reported as capped)",
		"the repository is an in-memory vcs.Repository (linear history, tags <dir>/<version>, one dawn.toml per project directory) served through the real Resolver, real cache directory on tmpfs and real dawn.toml parser",
		"a root set may name one project under two or three requirement names at different versions; the reference takes the maximum; such a pair is resolved 8 times (map insertion order alternated) because the order in which Go iterates the requirement map is random",
		"crash model of the interrupted-fetch family: process death (os.Exit in a child process that shares the cache directory and the temp directory) at every point between two file writes of a checkout; files written so far persist, nothing deferred runs, no file is torn. A checkout writes a stale legacy .dawnconfig (different requirements) first, then dawn.toml, then BUILD.dawn and src/lib.txt. After the death a fresh Resolver in the parent must compute the reference build list. Interleaving model: one download parked between two file writes while a second Resolver on the same cache directory resolves",
		"concurrent resolutions: a BuildList on a cold shared Resolver is parked inside the download of one reachable project version (every reachable version in turn) while a second BuildList runs on the SAME Resolver (same roots; and roots = just that version); both must equal their reference. Plus 3 free-running rounds per pair of 4 concurrent BuildLists on one cold shared Resolver",
		"a tag is any <dir>/<valid semver> name (v1.2, v1.2.0+hotfix are tags, as for a git server); a requirement on x@v1.2.0 is answered by the commit tagged exactly x/v1.2.0. A dawn.toml whose requirement version is not canonical (build metadata, short form, leading zero) is rejected by dawn's configuration loader, so every resolution that reaches it must fail - cold, warm and in every forced download order (each reachable version's download parked until the others have settled)",
		"spelling families: every requirement path in every dependency dawn.toml, and in the root dawn.toml (written as text and read through dawn's configuration loader), is spelled with an explicit @v1 major, a \"./\" element or a trailing slash; the reference is the build list of the canonical spelling",
		"hang = no result within 10 s (normal cost < 1 ms)",
	}
	r.Finish(vlib.Coverage{
		Evaluations:        r.Get("evaluations"),
		DistinctNontrivial: r.Get("nontrivial"),
		Rule:               "every universe of each family (all requirement functions: each (project,version) requires none or exactly one version of each other project) x every root set with <=1 version per project, plus root sets naming one project 2-3 times at different versions, reduced to pairs whose unreachable nodes have no requirements; 5 resolutions per pair (cold, same resolver, new resolver on warm cache dir, renamed root requirement names, reversed declaration/tag order on a second cold cache), 8 when a project is named twice; interrupted-fetch family: per pair x reachable project version x k, one real process death after k files and one parked download; non-trivial = reference build list selects >= 2 projects",
		States:             r.Get("pairs"),
		Transitions:        r.Get("evaluations"),
		TracesValidated:    r.Get("crash-points") + r.Get("interleavings") + r.Get("forced-concurrent-resolutions"),
		Exhaustive:         true,
		Outcomes:           r.NumOutcomes("classes") + r.NumOutcomes("crash-classes"),
		Bounds:             bounds,
	})
}
