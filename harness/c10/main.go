// C10 — the resolved build list is the minimal-version-selection solution.
//
// Bounded-exhaustive: ALL universes over P projects x V versions in which every
// (project, version) requires at most one version of each other project, x every root
// requirement set with at most one version per project. Each pair is resolved by the real
// mvs.BuildList five times — cold cache, same resolver again, new resolver on the warm cache
// directory, root requirement names renamed, and a second cold cache with every dawn.toml's
// declaration order (and the tag listing order) reversed — and compared with an independent
// breadth-first reachability + semver-maximum reference.
package main

import (
	"context"
	"fmt"
	"os"
	"path/filepath"
	"sort"
	"time"

	"github.com/pgavlin/dawn/internal/mvs"
	"github.com/pgavlin/dawn/internal/project"
	"github.com/pgavlin/dawn/internal/verif/mvsfake"
	"github.com/pgavlin/dawn/internal/verif/vlib"
	"golang.org/x/mod/semver"
)

type item struct {
	fam    int
	lo, hi int64
}

type replay struct {
	Family   string         `json:"family"`
	Index    int64          `json:"universe_index"`
	Universe map[string]any `json:"universe"`
	Roots    []string       `json:"roots"`
	Run      string         `json:"run"`
	Got      string         `json:"got"`
	Want     string         `json:"reference"`
	Spec     any            `json:"spec"`
}

func natName(p string) string {
	base, major := mvsfake.SplitMajor(p)
	n := filepath.Base(base)
	if major != "" {
		n += "@" + major
	}
	return n
}

func config(roots []mvsfake.Req, renamed bool) *project.Config {
	c := &project.Config{Requirements: map[string]project.RequirementConfig{}}
	for i, r := range roots {
		name := natName(r.Path)
		if renamed {
			// names whose sorted order is the reverse of the path order, and that are not paths' base names
			name = fmt.Sprintf("z%d", len(roots)-i)
		}
		c.Requirements[name] = project.RequirementConfig{Path: r.Path, Version: r.Version}
	}
	return c
}

// diff names the first discrepancy between a result and the reference.
func diff(got, want map[string]string) (string, string) {
	var ks []string
	for k := range want {
		ks = append(ks, k)
	}
	sort.Strings(ks)
	for _, k := range ks {
		g, ok := got[k]
		if !ok {
			return "missing-project", fmt.Sprintf("%s missing (reference %s)", k, want[k])
		}
		if g != want[k] {
			if semver.Compare(g, want[k]) < 0 {
				return "wrong-version:too-low", fmt.Sprintf("%s at %s, reference %s", k, g, want[k])
			}
			return "wrong-version:too-high", fmt.Sprintf("%s at %s, reference %s", k, g, want[k])
		}
	}
	ks = ks[:0]
	for k := range got {
		ks = append(ks, k)
	}
	sort.Strings(ks)
	for _, k := range ks {
		if _, ok := want[k]; !ok {
			return "extra-project", fmt.Sprintf("%s@%s is not reachable", k, got[k])
		}
	}
	return "", ""
}

func main() {
	r := vlib.Start("C10")
	if r.ReplayIn != "" {
		vlib.Fatalf("replay files are self-describing (universe + roots); re-run the tier to reproduce")
	}
	tmp := filepath.Join(r.Scratch, "tmp")
	os.MkdirAll(tmp, 0o755)
	os.Setenv("TMPDIR", tmp) // FetchProject renames from the temp dir into the cache: same file system

	two := func(d string, a, b string) mvsfake.ProjectDef {
		return mvsfake.ProjectDef{Dir: d, Versions: []string{a, b}}
	}
	one := func(d string, a string) mvsfake.ProjectDef { return mvsfake.ProjectDef{Dir: d, Versions: []string{a}} }
	// version pairs chosen so that semver order differs from string order / involves a pre-release / spans v0-v1
	pa, pb := two("a", "v1.2.0", "v1.10.0"), two("b", "v1.0.0-rc.1", "v1.0.0")
	var fams []*mvsfake.Family
	if !r.Thorough() {
		fams = []*mvsfake.Family{
			{Name: "2x2+1", Addr: "example.com", Projects: []mvsfake.ProjectDef{pa, pb, one("c", "v1.0.0")}},
			{Name: "2x2-split-repos", Addr: "example.com", Split: true, Projects: []mvsfake.ProjectDef{pa, pb}},
			{Name: "majors a,c,c@v2", Addr: "example.com", Projects: []mvsfake.ProjectDef{pa, one("c", "v1.0.0"), one("c", "v2.0.0")}},
			{Name: "majors-split", Addr: "example.com", Split: true, Projects: []mvsfake.ProjectDef{pa, one("c", "v1.0.0"), one("c", "v2.0.0")}},
		}
	} else {
		fams = []*mvsfake.Family{
			{Name: "3x2", Addr: "example.com", Projects: []mvsfake.ProjectDef{pa, pb, two("c", "v0.9.0", "v1.0.0")}},
			{Name: "majors a(2),b,c,c@v2", Addr: "example.com", Projects: []mvsfake.ProjectDef{pa, one("b", "v1.0.0"), one("c", "v1.0.0"), one("c", "v2.0.0")}},
			{Name: "2x2+1-split-repos", Addr: "example.com", Split: true, Projects: []mvsfake.ProjectDef{pa, pb, one("c", "v1.0.0")}},
			{Name: "majors c(2),c@v2(2),a", Addr: "github.com/o/r", Projects: []mvsfake.ProjectDef{two("c", "v1.0.0", "v1.1.0"), two("c", "v2.0.0", "v2.1.0"), one("a", "v0.1.0")}},
			{Name: "2x3", Addr: "example.com", Projects: []mvsfake.ProjectDef{
				{Dir: "a", Versions: []string{"v1.2.0", "v1.10.0", "v1.10.1"}},
				{Dir: "b", Versions: []string{"v0.9.0", "v1.0.0-rc.1", "v1.0.0"}}}},
		}
	}
	// items: chunks of universes, families interleaved so that a time cap cuts all of them evenly
	const chunk = 400
	var perFam [][]item
	for fi, f := range fams {
		var l []item
		for lo := int64(0); lo < f.Count(); lo += chunk {
			hi := lo + chunk
			if hi > f.Count() {
				hi = f.Count()
			}
			l = append(l, item{fi, lo, hi})
		}
		perFam = append(perFam, l)
	}
	var items []item
	for k := 0; ; k++ {
		any := false
		for _, l := range perFam {
			// spread a family's chunks evenly over the whole item list
			if k < len(l) {
				items = append(items, l[k])
				any = true
			}
		}
		if !any {
			break
		}
	}
	rootSets := make([][][]mvsfake.Req, len(fams))
	for i, f := range fams {
		rootSets[i] = f.RootSets()
	}

	g := mvsfake.NewGuard(r, "C10", 10*time.Second, 3)
	r.OnCrash = g.OnCrash(func(idx int) any {
		it := items[idx]
		return map[string]any{"family": fams[it.fam].Name, "universes": []int64{it.lo, it.hi}}
	})
	ctx := context.Background()
	cacheN := 0

	r.Distribute(len(items), func(ii int) {
		it := items[ii]
		f := fams[it.fam]
		t := mvsfake.NewTally()
		g.BeginItem(ii)
		defer g.EndItem(t)
		if r.Expired() {
			t.Add("universes-not-run(time)", it.hi-it.lo)
			r.Cap("time budget reached before all universes were enumerated (see universes_enumerated / universes_total)")
			return
		}
		for ui := it.lo; ui < it.hi; ui++ {
			u := f.Universe(ui)
			var w, wr *mvsfake.World // built lazily: most pairs of a universe are not canonical
			t.Add("universes", 1)
			for _, roots := range rootSets[it.fam] {
				t.Add("pairs-represented", 1)
				if w == nil {
					w = mvsfake.Build(u)
				}
				ref := w.RefBuildList(roots)
				// (universe, roots) is represented by the pair in which every node that is NOT
				// reachable from the roots has no requirements: the resolver can only learn a
				// node's requirements by downloading it, and it is checked below that it
				// downloads reachable nodes only.
				canonical := true
				for _, repo := range u.Repos {
					for _, tg := range repo.Tags {
						if len(tg.Requires) > 0 && !ref.Reach[mvsfake.Req{Path: mvsfake.ModPath(repo.Addr, tg.Dir, tg.Version), Version: tg.Version}] {
							canonical = false
						}
					}
				}
				if !canonical {
					continue
				}
				if !ref.OK {
					vlib.Fatalf("generated universe has a dangling requirement")
				}
				t.Add("pairs", 1)
				if len(ref.List) >= 2 {
					t.Add("nontrivial", 1)
				}
				t.Outcome("classes", fmt.Sprintf("%s: selected=%d reachable=%d conflict=%v cycle=%v", f.Name, len(ref.List), len(ref.Reach), ref.Conflict, ref.Cycle))
				t.Max("reachable-nodes", int64(len(ref.Reach)))

				rootStr := func() []string {
					var s []string
					for _, q := range roots {
						s = append(s, q.String())
					}
					return s
				}
				size := 10*u.Edges() + len(roots)
				mk := func(run, got string) func() any {
					return func() any {
						return replay{f.Name, ui, u.Compact(), rootStr(), run, got, mvsfake.FormatList(ref.List), u}
					}
				}
				cacheN++
				cacheDir := filepath.Join(r.Scratch, fmt.Sprintf("cache-%d", cacheN%2))
				os.RemoveAll(cacheDir)
				os.MkdirAll(cacheDir, 0o755)

				reachKeys := map[string]bool{}
				for m := range ref.Reach {
					reachKeys[w.FetchKey(m)] = true
				}
				type runT struct {
					name  string
					world *mvsfake.World
					res   *mvs.Resolver
					cfg   *project.Config
					cold  bool
				}
				res1 := mvs.NewResolver(cacheDir, w.Dialer(), nil)
				runs := []runT{
					{"cold", w, res1, config(roots, false), true},
					{"same-resolver-again", w, res1, config(roots, false), false},
					{"new-resolver-warm-cache-dir", w, mvs.NewResolver(cacheDir, w.Dialer(), nil), config(roots, false), false},
					{"renamed-requirements", w, mvs.NewResolver(cacheDir, w.Dialer(), nil), config(roots, true), false},
				}
				var results []map[string]string
				bad := false
				for ri := 0; ri < 5 && !bad; ri++ {
					if ri == 4 {
						if wr == nil {
							ur := *u
							ur.ReverseDecl = !u.ReverseDecl
							wr = mvsfake.Build(&ur)
						}
						cacheDir2 := cacheDir + "r"
						os.RemoveAll(cacheDir2)
						os.MkdirAll(cacheDir2, 0o755)
						runs = append(runs, runT{"reversed-declaration-order-cold", wr, mvs.NewResolver(cacheDir2, wr.Dialer(), nil), config(roots, false), true})
					}
					run := runs[ri]
					before := run.world.Fetches()
					run.world.TakeFetchLog()
					out, err, st := g.Run(t, "build-list", func() (any, error) { return mvs.BuildList(ctx, run.cfg, run.res) })
					t.Add("evaluations", 1)
					switch st {
					case mvsfake.Skipped:
						bad = true
						continue
					case mvsfake.Hung:
						t.Violation("C10:hang", size, fmt.Sprintf("BuildList did not return within 10s (%s run), roots %v", run.name, rootStr()), mk(run.name, "no result"))
						bad = true
						continue
					case mvsfake.Panicked:
						t.Violation("C10:panic", size, fmt.Sprintf("BuildList panicked (%s run): %v", run.name, err), mk(run.name, err.Error()))
						bad = true
						continue
					}
					if err != nil {
						t.Violation("C10:error", size, fmt.Sprintf("BuildList failed on a resolvable universe (%s run): %v", run.name, err), mk(run.name, err.Error()))
						bad = true
						continue
					}
					got := map[string]string{}
					for k, v := range out.(map[string]string) {
						got[k] = v
					}
					// the root project reports itself as ""->"": accepted, not required
					if v, ok := got[""]; ok {
						if v != "" {
							t.Violation("C10:root-entry", size, fmt.Sprintf("root entry has version %q", v), mk(run.name, mvsfake.FormatList(got)))
						}
						delete(got, "")
						t.Add("root-self-entries", 1)
					}
					fetched := run.world.Fetches() - before
					if run.cold {
						t.Add("downloads-cold", fetched)
					} else {
						t.Add("downloads-warm", fetched)
					}
					for _, l := range run.world.TakeFetchLog() {
						if !reachKeys[l] {
							// a download of an unreachable node: the canonical-pair reduction would be unsound
							t.Add("downloads-beyond-reachable", 1)
						}
					}
					results = append(results, got)
					kind, detail := diff(got, ref.List)
					if kind == "" {
						continue
					}
					sig := "C10:" + kind
					if ri > 0 {
						if k0, _ := diff(results[0], ref.List); k0 == "" {
							switch run.name {
							case "same-resolver-again", "new-resolver-warm-cache-dir":
								sig = "C10:cache-dependent"
							case "renamed-requirements":
								sig = "C10:name-dependent"
							default:
								sig = "C10:order-dependent"
							}
						}
					}
					t.Violation(sig, size, fmt.Sprintf("[%s, %s run] roots %v: %s; got %s", f.Name, run.name, rootStr(), detail, mvsfake.FormatList(got)), mk(run.name, mvsfake.FormatList(got)))
					bad = true
				}
				if (ui*31+int64(len(roots)))%20011 == 3 {
					t.Sample(map[string]any{"family": f.Name, "universe": u.Compact(), "roots": rootStr(), "reference": mvsfake.FormatList(ref.List)})
				}
			}
		}
	})
	if r.Get("downloads-beyond-reachable") > 0 {
		r.Cap("the resolver downloaded unreachable versions: the canonical-pair reduction does not cover those pairs")
	}
	mvsfake.EmitViolations(r)
	bounds := map[string]any{}
	total := int64(0)
	for i, f := range fams {
		bounds[f.Name] = map[string]any{"projects": f.Projects, "universes": f.Count(), "root_sets": len(rootSets[i]), "one_repo_per_project": f.Split}
		total += f.Count()
	}
	r.Extra["universes_enumerated"] = r.Get("universes")
	r.Extra["universes_total"] = total
	r.Extra["pairs_represented"] = r.Get("pairs-represented")
	r.Extra["skipped_after_hang"] = r.Get("skipped-after-hang")
	r.Extra["outcome_classes"] = r.Outcomes("classes")
	r.Assumptions = []string{
		"BuildList reports the root project itself as \"\" -> \"\"; that entry is accepted and ignored, every other entry must equal the reference exactly",
		"a (universe, roots) pair is run once per class of universes that agree on the requirements of all nodes reachable from the roots (the representative gives unreachable nodes no requirements); sound because a node's requirements are only observable by downloading it, and the harness counts downloads beyond the reachable set (0 expected, else the run is reported as capped)",
		"the repository is an in-memory vcs.Repository (linear history, tags <dir>/<version>, one dawn.toml per project directory) served through the real Resolver, real cache directory on tmpfs and real dawn.toml parser",
		"hang = no result within 10 s (normal cost < 1 ms)",
	}
	r.Finish(vlib.Coverage{
		Evaluations:        r.Get("evaluations"),
		DistinctNontrivial: r.Get("nontrivial"),
		Rule:               "every universe of each family (all requirement functions: each (project,version) requires none or exactly one version of each other project) x every root set with <=1 version per project, reduced to pairs whose unreachable nodes have no requirements; 5 resolutions per pair (cold, same resolver, new resolver on warm cache dir, renamed root requirement names, reversed declaration/tag order on a second cold cache); non-trivial = reference build list selects >= 2 projects",
		States:             r.Get("pairs"),
		Transitions:        r.Get("evaluations"),
		Exhaustive:         true,
		Outcomes:           r.NumOutcomes("classes"),
		Bounds:             bounds,
	})
}
