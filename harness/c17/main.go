// C17 — glob sets match exactly the union of their patterns.
// Bounded-exhaustive enumeration of pattern lists x paths against a recursive reference matcher.
package main

import (
	"fmt"
	"strings"
	"sync"
	"sync/atomic"

	"github.com/pgavlin/dawn/internal/verif/vlib"
	"github.com/pgavlin/dawn/util"
)

// ---- reference semantics (independent of regexp) -------------------------------------

type tok struct {
	kind byte // 'l' literal, '*' star, 'S' doublestar, '?' any one character
	c    rune
}

// parseRef parses a pattern; ok=false for patterns outside the stated semantics
// (trailing backslash, escapes of ordinary characters, unescaped brackets).
func parseRef(ps string) (toks []tok, ok bool) {
	p := []rune(ps)
	for i := 0; i < len(p); i++ {
		switch c := p[i]; c {
		case '\\':
			if i+1 >= len(p) {
				return nil, false
			}
			n := p[i+1]
			switch n {
			case '\\', '*', '?', '[', ']':
				toks = append(toks, tok{'l', n})
				i++
			default:
				return nil, false
			}
		case '*':
			if i+1 < len(p) && p[i+1] == '*' {
				toks = append(toks, tok{kind: 'S'})
				i++
			} else {
				toks = append(toks, tok{kind: '*'})
			}
		case '?':
			toks = append(toks, tok{kind: '?'})
		case '[', ']':
			return nil, false
		default:
			toks = append(toks, tok{'l', c})
		}
	}
	return toks, true
}

func matchRef(t []tok, str string) bool { return matchRunes(t, []rune(str)) }

func matchRunes(t []tok, s []rune) bool {
	if len(t) == 0 {
		return len(s) == 0
	}
	switch t[0].kind {
	case 'l':
		return len(s) != 0 && s[0] == t[0].c && matchRunes(t[1:], s[1:])
	case '?':
		return len(s) != 0 && matchRunes(t[1:], s[1:])
	case '*':
		for i := 0; ; i++ {
			if matchRunes(t[1:], s[i:]) {
				return true
			}
			if i >= len(s) || s[i] == '/' {
				return false
			}
		}
	case 'S':
		for i := 0; i <= len(s); i++ {
			if matchRunes(t[1:], s[i:]) {
				return true
			}
		}
		return false
	}
	panic("bad token")
}

// ---- enumeration ------------------------------------------------------------------------

func allSeqs(alpha []string, maxLen int, minLen int) []string {
	var out []string
	var rec func(prefix string, n int)
	rec = func(prefix string, n int) {
		if n >= minLen {
			out = append(out, prefix)
		}
		if n == maxLen {
			return
		}
		for _, a := range alpha {
			rec(prefix+a, n+1)
		}
	}
	rec("", 0)
	return out
}

type replay struct {
	Patterns []string `json:"patterns"`
	Path     string   `json:"path"`
	Impl     any      `json:"impl"`
	Ref      any      `json:"reference"`
}

func main() {
	r := vlib.Start("C17")
	if r.ReplayIn != "" {
		vlib.Fatalf("use: go run with patterns from the replay file; replay is printed in the file itself")
	}
	patTok := []string{"a", "b", "/", ".", "+", "*", "**", "?", `\*`, `\?`, `\\`, `\[`}
	pathAl := []string{"a", "b", "/", ".", "*", "["}
	maxTok, maxPath, maxListPath := 3, 5, 4
	if r.Thorough() {
		maxTok = 4
	}
	// distinct pattern strings (token sequences can spell the same string: "*"+"*" == "**")
	seen := map[string]bool{}
	var pats []string
	for _, p := range allSeqs(patTok, maxTok, 1) {
		if !seen[p] {
			seen[p] = true
			pats = append(pats, p)
		}
	}
	paths := allSeqs(pathAl, maxPath, 1)
	var evals, mism atomic.Int64
	var nontrivial atomic.Int64 // patterns that match at least one and reject at least one path
	outcomes := sync.Map{}

	// (1) singletons
	r.Parallel(len(pats), func(i int) {
		p := pats[i]
		toks, ok := parseRef(p)
		re, err := util.CompileGlobs([]string{p})
		if !ok {
			// outside the stated semantics: only require no panic (CompileGlobs returned).
			outcomes.Store("rejected-or-out-of-scope", true)
			return
		}
		if err != nil {
			r.Violation("C17:valid-pattern-rejected", fmt.Sprintf("CompileGlobs(%q) = %v", p, err), replay{Patterns: []string{p}, Impl: err.Error(), Ref: "valid"})
			return
		}
		m, n := 0, 0
		for _, s := range paths {
			want := matchRef(toks, s)
			got := re.MatchString(s)
			evals.Add(1)
			if want {
				m++
			} else {
				n++
			}
			if got != want {
				mism.Add(1)
				r.Violation("C17:single-pattern-mismatch", fmt.Sprintf("pattern %q path %q: impl=%v reference=%v", p, s, got, want), replay{[]string{p}, s, got, want})
			}
		}
		if m > 0 && n > 0 {
			nontrivial.Add(1)
		}
		outcomes.Store(fmt.Sprintf("single:%v/%v", m > 0, n > 0), true)
	})
	r.Sample(map[string]any{"patterns": []string{pats[len(pats)/2]}, "paths": paths[len(paths)/3 : len(paths)/3+3]})

	// (1b) characters outside ASCII, literal and matched by wildcards ("?" is one character, not one byte)
	{
		uTok := []string{"é", "a", "*", "?", "/", "😀", "**"}
		uPath := []string{"é", "a", "/", "😀", "Ã"}
		upats := allSeqs(uTok, 3, 1)
		upaths := allSeqs(uPath, 4, 1)
		r.Parallel(len(upats), func(i int) {
			p := upats[i]
			toks, ok := parseRef(p)
			if !ok {
				return
			}
			re, err := util.CompileGlobs([]string{p, "zzz"})
			if err != nil {
				r.Violation("C17:valid-pattern-rejected", fmt.Sprintf("CompileGlobs(%q) = %v", p, err), replay{Patterns: []string{p}, Impl: err.Error(), Ref: "valid"})
				return
			}
			for _, s := range upaths {
				want, got := matchRef(toks, s), re.MatchString(s)
				evals.Add(1)
				if got != want {
					r.Violation("C17:non-ascii-mismatch", fmt.Sprintf("pattern %q path %q: impl=%v reference=%v", p, s, got, want), replay{[]string{p, "zzz"}, s, got, want})
				}
			}
		})
	}
	// (1c) regular-expression metacharacters are ordinary characters of a glob; every list of 1-2
	// such patterns is compiled twice in this process, before and after every other list (a
	// compilation must not depend on what was compiled earlier)
	{
		mTok := []string{"a", "|", "(", ")", "^", "$", "{", "}", "*", "2", ","}
		mPath := []string{"a", "|", "(", "{", "}", "2", "$"}
		mpats := allSeqs(mTok, 4, 1) // long enough for a counted repetition: a{2}, a{2,}
		mpaths := allSeqs(mPath, 3, 1)
		mpaths = append(mpaths, "a{2}", "a{2,}", "{2}", "aa{2}")
		var lists [][]string
		for _, p := range mpats {
			lists = append(lists, []string{p})
		}
		small := allSeqs(mTok[:5], 2, 1)
		for _, p := range small {
			for _, q := range small {
				lists = append(lists, []string{p, q})
			}
		}
		for round := 0; round < 2; round++ {
			order := lists
			if round == 1 {
				order = make([][]string, len(lists))
				for i, l := range lists {
					order[len(lists)-1-i] = l
				}
			}
			for _, l := range order {
				re, err := util.CompileGlobs(l)
				if err != nil {
					r.Violation("C17:valid-pattern-rejected", fmt.Sprintf("CompileGlobs(%q) = %v", l, err), replay{Patterns: l, Impl: err.Error(), Ref: "valid"})
					continue
				}
				var ts [][]tok
				for _, p := range l {
					t, _ := parseRef(p)
					ts = append(ts, t)
				}
				for _, sp := range mpaths {
					want := false
					for _, t := range ts {
						want = want || matchRef(t, sp)
					}
					evals.Add(1)
					if got := re.MatchString(sp); got != want {
						r.Violation("C17:metacharacter-mismatch", fmt.Sprintf("patterns %q path %q: impl=%v reference=%v (compiled in one process with every other list, round %d)", l, sp, got, want, round), replay{l, sp, got, want})
					}
				}
			}
		}
		r.Add("metacharacter_lists_compiled_twice", int64(len(lists)))
	}
	// (2) lists of 0..3 patterns from a pool
	pool := []string{"a", "b", "*", "**", "?", "a*", "*b", "a/b", "*/a", "**/b", "a/**", "?/a", "a.b", "*.a", `\*`, `a\?`,
		"ab", "ba", "/", "a/", "/b", "*/", "/*", "**/", "a?", "?b", "??", "a/*", "*/*", "**a", "b**", "a+", ".", "..", "*.*",
		"a/b/a", "*/b/*", "a*b", "b*a", "**/*", "a/?", `\\`, `\[`, `\[a`, "a**b", "*a*", "?*", "*?", "a/a", "b/b",
		"aa", "bb", "+", ".*", "*.", "a.", ".a", "/a/", "a//b", "*/**"}
	if len(pool) != 60 {
		vlib.Fatalf("pool has %d patterns", len(pool))
	}
	lpaths := allSeqs(pathAl, maxListPath, 1)
	if !r.Thorough() {
		// quick: all pairs from the pool, triples from the first 14
	}
	refBits := make([][]bool, len(pool))
	for i, p := range pool {
		toks, ok := parseRef(p)
		if !ok {
			vlib.Fatalf("pool pattern %q outside grammar", p)
		}
		refBits[i] = make([]bool, len(lpaths))
		for j, s := range lpaths {
			refBits[i][j] = matchRef(toks, s)
		}
	}
	var lists [][]int
	lists = append(lists, []int{})
	for i := range pool {
		lists = append(lists, []int{i})
	}
	for i := range pool {
		for j := range pool {
			lists = append(lists, []int{i, j})
		}
	}
	tri := 14
	if r.Thorough() {
		tri = len(pool)
	}
	for i := 0; i < tri; i++ {
		for j := 0; j < tri; j++ {
			for k := 0; k < tri; k++ {
				lists = append(lists, []int{i, j, k})
			}
		}
	}
	var listEvals, listNontrivial atomic.Int64
	r.Parallel(len(lists), func(li int) {
		l := lists[li]
		ps := make([]string, len(l))
		for i, x := range l {
			ps[i] = pool[x]
		}
		re, err := util.CompileGlobs(ps)
		if err != nil {
			r.Violation("C17:valid-list-rejected", fmt.Sprintf("CompileGlobs(%q) = %v", ps, err), replay{Patterns: ps, Impl: err.Error(), Ref: "valid"})
			return
		}
		m, n := 0, 0
		for j, s := range lpaths {
			want := false
			for _, x := range l {
				want = want || refBits[x][j]
			}
			got := re.MatchString(s)
			listEvals.Add(1)
			if want {
				m++
			} else {
				n++
			}
			if got != want {
				sig := "C17:list-mismatch"
				if len(l) >= 2 {
					// cause: every member alone agrees with the reference (checked in part 1 for the
					// pool, which is a subset of the grammar), so the fault is in how the set is combined.
					sig = "C17:set-combination"
				}
				r.Violation(sig, fmt.Sprintf("patterns %q path %q: impl=%v reference=%v", ps, s, got, want), replay{ps, s, got, want})
			}
		}
		if m > 0 && n > 0 {
			listNontrivial.Add(1)
		}
		outcomes.Store(fmt.Sprintf("list%d:%v/%v", len(l), m > 0, n > 0), true)
	})
	r.Sample(map[string]any{"patterns": []string{pool[5], pool[9]}, "paths": lpaths[100:103]})

	consumers(r)

	nOut := int64(0)
	outcomes.Range(func(k, v any) bool { nOut++; return true })
	r.Extra["single_patterns"] = len(pats)
	r.Extra["paths"] = len(paths)
	r.Extra["pattern_lists"] = len(lists)
	r.Extra["list_paths"] = len(lpaths)
	r.Extra["mismatching_evaluations"] = mism.Load()
	r.Extra["consumer_calls"] = r.Get("consumer_calls")
	r.Assumptions = []string{"consumers: glob() and os.glob() are called with every include list of 1-2 patterns x exclude list of 0-1 (thorough 0-2) patterns from a 23-pattern pool on a generated tree, and dawn.toml ignore lists of 1-2 patterns decide which packages load; each selection is compared with the reference matcher over the full tree", "unescaped [ and ] and escapes of ordinary characters are outside the stated glob semantics and only required not to panic", "paths are non-empty strings over " + strings.Join(pathAl, " ")}
	r.Finish(vlib.Coverage{
		Evaluations:        evals.Load() + listEvals.Load() + r.Get("consumer_calls"),
		DistinctNontrivial: nontrivial.Load() + listNontrivial.Load(),
		Rule:               "all pattern strings of <=N tokens over the 12-token glob alphabet x all paths of length<=5 over {a,b,/,.,*,[}; all ordered lists of 0-2 patterns (3 from a sub-pool in quick, full pool in thorough) from a 60-pattern pool x all paths of length<=4; non-trivial = pattern/list that accepts at least one path and rejects at least one",
		States:             int64(len(pats) + len(lists)),
		Transitions:        evals.Load() + listEvals.Load(),
		Exhaustive:         true,
		Outcomes:           nOut,
		Bounds:             map[string]any{"pattern_tokens": maxTok, "path_len": maxPath, "list_len": 3, "list_path_len": maxListPath, "triple_pool": tri},
	})
}
