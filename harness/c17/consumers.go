package main

import (
	"fmt"
	"os"
	"path/filepath"
	"sort"
	"strings"
	"sync"

	dawn "github.com/pgavlin/dawn"
	"github.com/pgavlin/dawn/internal/verif/vlib"
	"github.com/pgavlin/dawn/label"
	starlark_os "github.com/pgavlin/dawn/lib/os"
	"go.starlark.net/starlark"
)

// Part (3) of C17: the real consumers of glob sets select exactly the documented files -
// glob(include, exclude) in BUILD files, os.glob(include, exclude), and the ignore list of
// dawn.toml (which packages get loaded) - on generated trees, for all pattern lists of one or
// two patterns from a pool, against the reference matcher.

var treeFiles = []string{"a.txt", "b.go", "d/a.txt", "d/b.go", "d/e/a.txt", "d/e/c.go", "build/out.bin", "gen/x.go", "pkg/generic/types.go", "pkg/gen.txt", "x/.hidden", ".top"}

var consumerPool = []string{"*", "**", "*.txt", "**/*.txt", "**/*.go", "d/*", "d/**", "d", "build", "**/gen*", "*/*", "?.txt", "d/e", "**/e/**", "pkg/**", "*.go", "**/a.txt", ".*", "x/*", "**/.*",
	// "?" is one character, the separator included: patterns without any "/" that reach into directories
	"d?a.txt", "d?e?c.go", "pk??gen.txt"}

type printRec struct {
	dawn.Events
	mu    sync.Mutex
	lines []string
	mods  []string
}

func (p *printRec) Print(l *label.Label, line string) {
	p.mu.Lock()
	p.lines = append(p.lines, line)
	p.mu.Unlock()
}
func (p *printRec) ModuleLoading(l *label.Label) {
	p.mu.Lock()
	p.mods = append(p.mods, l.String())
	p.mu.Unlock()
}

func refSetMatch(pats []string, path string) bool {
	for _, p := range pats {
		toks, ok := parseRef(p)
		if ok && matchRef(toks, path) {
			return true
		}
	}
	return false
}

func quoteList(ps []string) string {
	var q []string
	for _, p := range ps {
		q = append(q, fmt.Sprintf("%q", p))
	}
	return "[" + strings.Join(q, ", ") + "]"
}

func consumers(r *vlib.Run) {
	// all lists of 1..2 patterns
	var lists [][]string
	for _, p := range consumerPool {
		lists = append(lists, []string{p})
	}
	for _, p := range consumerPool {
		for _, q := range consumerPool {
			if p != q {
				lists = append(lists, []string{p, q})
			}
		}
	}
	exc := append([][]string{{}}, lists[:len(consumerPool)]...) // excludes: none or one pattern ...
	if r.Thorough() {
		exc = append([][]string{{}}, lists...) // ... or two
	}
	// every path of the tree (files and directories), relative
	dirs := map[string]bool{}
	for _, f := range treeFiles {
		for d := filepath.Dir(f); d != "."; d = filepath.Dir(d) {
			dirs[d] = true
		}
	}
	var allPaths []string
	for d := range dirs {
		allPaths = append(allPaths, d)
	}
	allPaths = append(allPaths, treeFiles...)
	allPaths = append(allPaths, "BUILD.dawn", "dawn.toml")
	sort.Strings(allPaths)
	fileSet := append(append([]string{}, treeFiles...), "BUILD.dawn", "dawn.toml")

	type call struct {
		inc, exc []string
	}
	var calls []call
	for _, in := range lists {
		for _, ex := range exc {
			calls = append(calls, call{in, ex})
		}
	}
	// chunks of calls, one generated BUILD.dawn (one Load) per chunk
	const chunk = 400
	nchunks := (len(calls) + chunk - 1) / chunk
	r.Parallel(nchunks, func(ci int) {
		lo, hi := ci*chunk, (ci+1)*chunk
		if hi > len(calls) {
			hi = len(calls)
		}
		root, err := os.MkdirTemp(r.Scratch, "globtree")
		if err != nil {
			vlib.Fatalf("%v", err)
		}
		defer os.RemoveAll(root)
		for _, f := range treeFiles {
			os.MkdirAll(filepath.Join(root, filepath.Dir(f)), 0o755)
			os.WriteFile(filepath.Join(root, f), []byte("x"), 0o644)
		}
		os.WriteFile(filepath.Join(root, "dawn.toml"), []byte("name = \"p\"\n"), 0o644)
		var b strings.Builder
		for i := lo; i < hi; i++ {
			c := calls[i]
			fmt.Fprintf(&b, "print(\"G %d \" + \"|\".join(sorted(glob(%s, exclude=%s))))\n", i, quoteList(c.inc), quoteList(c.exc))
			fmt.Fprintf(&b, "print(\"O %d \" + \"|\".join(sorted(os.glob(%s, %s))))\n", i, quoteList(c.inc), quoteList(c.exc))
		}
		os.WriteFile(filepath.Join(root, "BUILD.dawn"), []byte(b.String()), 0o644)
		rec := &printRec{Events: dawn.DiscardEvents}
		// every other project is opened through a symbolic link to its root directory (a checkout
		// reached through a link): the same tree, so the same selections
		open := root
		if ci%2 == 1 {
			open = root + ".link"
			os.Remove(open)
			if err := os.Symlink(root, open); err != nil {
				vlib.Fatalf("symlink: %v", err)
			}
			defer os.Remove(open)
		}
		if _, err := dawn.Load(open, &dawn.LoadOptions{Events: rec, Builtins: starlark.StringDict{"os": starlark_os.Module}}); err != nil {
			vlib.Fatalf("glob consumer project does not load: %v", err)
		}
		for _, line := range rec.lines {
			parts := strings.SplitN(line, " ", 3)
			if len(parts) < 2 {
				continue
			}
			var idx int
			fmt.Sscanf(parts[1], "%d", &idx)
			got := ""
			if len(parts) == 3 {
				got = parts[2]
			}
			c := calls[idx]
			universe := fileSet
			if parts[0] == "O" {
				universe = allPaths // os.glob also reports directories
			}
			var want []string
			for _, p := range universe {
				if strings.HasPrefix(p, ".dawn") {
					continue
				}
				if refSetMatch(c.inc, p) && !refSetMatch(c.exc, p) {
					want = append(want, p)
				}
			}
			sort.Strings(want)
			// the load itself creates .dawn/build: ignore whatever is reported under .dawn
			var gl []string
			for _, g := range strings.Split(got, "|") {
				if g != "" && !strings.HasPrefix(g, ".dawn") {
					gl = append(gl, g)
				}
			}
			r.Add("consumer_calls", 1)
			if strings.Join(gl, "|") != strings.Join(want, "|") {
				name := map[string]string{"G": "glob()", "O": "os.glob()"}[parts[0]]
				r.Violation("C17:consumer:"+map[string]string{"G": "glob-builtin", "O": "os-glob"}[parts[0]],
					fmt.Sprintf("%s with include %q exclude %q selected %v, the documented selection is %v", name, c.inc, c.exc, gl, want),
					map[string]any{"consumer": name, "include": c.inc, "exclude": c.exc, "tree": treeFiles, "got": gl, "want": want})
			}
		}
	})
	// ignore lists: which packages get loaded
	pkgs := []string{"", "a", "a/b", "c", "ab", "c/a"}
	ignPool := []string{"a", "a/*", "a/**", "*", "c", "?", "a*", "**/b", "**/a", "ab", "c/a", "*/a",
		// entries that are not lexically clean paths are patterns like any other (no normalisation)
		"./a", "a/", "c/**/../a", "a//b"}
	var ign [][]string
	for _, p := range ignPool {
		ign = append(ign, []string{p})
	}
	for _, p := range ignPool {
		for _, q := range ignPool {
			if p < q {
				ign = append(ign, []string{p, q})
			}
		}
	}
	r.Parallel(len(ign), func(i int) {
		root, err := os.MkdirTemp(r.Scratch, "igntree")
		if err != nil {
			vlib.Fatalf("%v", err)
		}
		defer os.RemoveAll(root)
		for _, p := range pkgs {
			os.MkdirAll(filepath.Join(root, p), 0o755)
			os.WriteFile(filepath.Join(root, p, "BUILD.dawn"), []byte("x = 1\n"), 0o644)
		}
		os.WriteFile(filepath.Join(root, "dawn.toml"), []byte("name = \"p\"\nignore = "+strings.ReplaceAll(quoteList(ign[i]), "\\", "\\\\")+"\n"), 0o644)
		rec := &printRec{Events: dawn.DiscardEvents}
		if _, err := dawn.Load(root, &dawn.LoadOptions{Events: rec}); err != nil {
			vlib.Fatalf("ignore project does not load: %v", err)
		}
		// a package is loaded iff neither it nor an enclosing package directory is ignored
		var want []string
		for _, p := range pkgs {
			skip := false
			for q := p; ; q = filepath.Dir(q) {
				if q == "." {
					q = ""
				}
				if refSetMatch(ign[i], q) { // the root package's relative path is the empty path

					skip = true
				}
				if q == "" {
					break
				}
			}
			if !skip {
				want = append(want, "module://"+p+":BUILD.dawn")
			}
		}
		sort.Strings(want)
		got := append([]string{}, rec.mods...)
		sort.Strings(got)
		r.Add("consumer_calls", 1)
		if strings.Join(got, " ") != strings.Join(want, " ") {
			r.Violation("C17:consumer:ignore-list", fmt.Sprintf("ignore = %q loaded %v, the documented selection is %v", ign[i], got, want),
				map[string]any{"ignore": ign[i], "packages": pkgs, "got": got, "want": want})
		}
	})
}
