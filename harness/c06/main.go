// C06 — module loading is once-only, terminating and cycle-safe.
// Real project trees are generated for load graphs over three package BUILD files (each
// loaded by its own goroutine) and two helper modules; dawn.Load runs with the real
// Starlark interpreter under the controlled scheduler and all interleavings of the loader
// goroutines are explored (preemption-bounded; unbounded with pruning in thorough).
package main

import (
	"bytes"
	"crypto/sha256"
	"encoding/hex"
	"flag"
	"fmt"
	"os"
	"path/filepath"
	"sort"
	"strings"
	"sync"
	"time"

	dawn "github.com/pgavlin/dawn"
	"github.com/pgavlin/dawn/internal/verif/vlib"
	"github.com/pgavlin/dawn/internal/verif/vsched"
	"github.com/pgavlin/dawn/label"
	"github.com/pgavlin/dawn/pickle"
)

var fFree = flag.Int("free", 0, "race pass: load every graph this many times on the real Go scheduler (binary built with -race, no sync rewriting)")
var fAs = flag.String("as", "C06", "report under this property id; with C02 only the load-order independence of fingerprints is reported")
var fOnly = flag.String("only", "", "debug: only graphs whose description contains this")

// files: 0=//:BUILD.dawn 1=//p1:BUILD.dawn 2=//p2:BUILD.dawn 3=//:h1.dawn 4=//:h2.dawn (5=//p3:BUILD.dawn)
var fileLabel = []string{"//:BUILD.dawn", "//p1:BUILD.dawn", "//p2:BUILD.dawn", "//:h1.dawn", "//:h2.dawn", "//p3:BUILD.dawn"}
var filePath = []string{"BUILD.dawn", "p1/BUILD.dawn", "p2/BUILD.dawn", "h1.dawn", "h2.dawn", "p3/BUILD.dawn"}
var fileSym = []string{"b0", "b1", "b2", "h1", "h2", "b3"}
var isBuild = []bool{true, true, true, false, false, true}

type graph struct {
	Short bool     `json:"short_labels"` // BUILD files are loaded by their package label ("//p1") instead of "//p1:BUILD.dawn"
	Rel   bool     `json:"relative_labels"` // files of the root package spell their loads relative to it ("p2:BUILD.dawn", ":h1.dawn"); the others spell the same files absolutely
	Broken int     `json:"broken_helper"` // 1: h1 is spelled as a module of a project that is not a requirement; 2: h1's file does not exist
	Edges [][2]int `json:"edges"`        // (from, to): file `from` has a load statement for file `to`, in this order
	NPkg  int      `json:"packages"`
	Name  string   `json:"name"`
}

func (g graph) String() string {
	var b strings.Builder
	fmt.Fprintf(&b, "%s pkgs=%d short=%v rel=%v broken=%d:", g.Name, g.NPkg, g.Short, g.Rel, g.Broken)
	for _, e := range g.Edges {
		fmt.Fprintf(&b, " %s>%s", fileSym[e[0]], fileSym[e[1]])
	}
	return b.String()
}

func (g graph) build(i int) bool {
	return i < 3 && i < g.NPkg || i == 5 && g.NPkg >= 4
}

func (g graph) out(i int) []int {
	var o []int
	for _, e := range g.Edges {
		if e[0] == i {
			o = append(o, e[1])
		}
	}
	return o
}

// loaded returns the files that get loaded (reachable from the package BUILD files).
func (g graph) loaded() map[int]bool {
	seen := map[int]bool{}
	var dfs func(i int)
	dfs = func(i int) {
		if seen[i] {
			return
		}
		seen[i] = true
		for _, j := range g.out(i) {
			dfs(j)
		}
	}
	for i := range fileLabel {
		if g.build(i) {
			dfs(i)
		}
	}
	return seen
}

func (g graph) cyclic() bool {
	state := map[int]int{}
	var dfs func(i int) bool
	dfs = func(i int) bool {
		if state[i] == 1 {
			return true
		}
		if state[i] == 2 {
			return false
		}
		state[i] = 1
		for _, j := range g.out(i) {
			if dfs(j) {
				return true
			}
		}
		state[i] = 2
		return false
	}
	for i := range fileLabel {
		if g.build(i) && dfs(i) {
			return true
		}
	}
	return false
}

func (g graph) write(root string) {
	os.RemoveAll(root)
	must(os.MkdirAll(root, 0o755))
	must(os.WriteFile(filepath.Join(root, "dawn.toml"), []byte("name = \"t\"\n"), 0o644))
	for i := range fileLabel {
		if isBuild[i] && !g.build(i) {
			continue
		}
		var b strings.Builder
		for _, j := range g.out(i) {
			lbl := fileLabel[j]
			if g.Short && isBuild[j] && strings.HasSuffix(lbl, ":BUILD.dawn") && lbl != "//:BUILD.dawn" {
				lbl = strings.TrimSuffix(lbl, ":BUILD.dawn") // the package's default module
			}
			if g.Broken == 1 && j == 3 {
				lbl = "nosuch.example/proj//:h1.dawn"
			}
			if g.Rel && !strings.Contains(filePath[i], "/") {
				lbl = strings.TrimPrefix(lbl, "//") // relative to the root package, with or without a package part
			}
			fmt.Fprintf(&b, "load(%q, %q)\n", lbl, fileSym[j])
		}
		fmt.Fprintf(&b, "%s = %d\n", fileSym[i], i)
		if isBuild[i] {
			fmt.Fprintf(&b, "f = parse_flag(\"flag%d\", default=\"x\")\n", i)
			// the target's function refers to everything this file loaded, so that its fingerprint
			// covers values that arrive through the (interleaved) module loads
			refs := []string{fileSym[i]}
			for _, j := range g.out(i) {
				refs = append(refs, fileSym[j])
			}
			fmt.Fprintf(&b, "def _t():\n    x = [%s]\ntarget(name=\"t\", function=_t)\n", strings.Join(refs, ", "))
		}
		if g.Broken == 2 && i == 3 {
			continue
		}
		p := filepath.Join(root, filePath[i])
		must(os.MkdirAll(filepath.Dir(p), 0o755))
		must(os.WriteFile(p, []byte(b.String()), 0o644))
	}
}

func must(err error) {
	if err != nil {
		vlib.Fatalf("%v", err)
	}
}

type events struct {
	dawn.Events
	mu      sync.Mutex // only contended in the free-running race pass
	loading map[string]int
	order   []string
}

func (e *events) ModuleLoading(l *label.Label) {
	e.mu.Lock()
	e.loading[l.String()]++
	e.order = append(e.order, l.String())
	e.mu.Unlock()
}

type outcome struct {
	res     *vsched.Result
	err     error
	ret     bool
	ev      *events
	targets []string
	flags   []string
	prints  map[string]string // target label -> hash of its function environment encoding
}

func runOnce(root string, g graph, prefix []int, trace bool) *outcome {
	// remove persisted state so that every execution starts from the same tree
	os.RemoveAll(filepath.Join(root, ".dawn"))
	o := &outcome{ev: &events{Events: dawn.DiscardEvents, loading: map[string]int{}}}
	o.res = vsched.Execute(prefix, vsched.Options{NumCPU: 2, Trace: trace, Horizon: 6000}, func() {
		proj, err := dawn.Load(root, &dawn.LoadOptions{Events: o.ev})
		o.err, o.ret = err, true
		if err == nil {
			o.prints = map[string]string{}
			for _, t := range proj.Targets() {
				o.targets = append(o.targets, t.Label().String())
				if fn := dawn.VerifTargetFunction(t); fn != nil {
					var buf bytes.Buffer
					if err := pickle.NewEncoder(&buf, pickle.PicklerFunc(dawn.VerifNewEnvPickler())).Encode(fn); err != nil {
						o.prints[t.Label().String()] = "error: " + err.Error()
					} else {
						h := sha256.Sum256(buf.Bytes())
						o.prints[t.Label().String()] = hex.EncodeToString(h[:8])
					}
				}
			}
			for _, f := range proj.Flags() {
				o.flags = append(o.flags, f.Name)
			}
		}
	})
	return o
}

func verdicts(g graph, o *outcome) []string {
	var bad []string
	res := o.res
	if res.Deadlock != "" {
		bad = append(bad, "deadlock|"+res.Deadlock)
	}
	if res.Livelock != "" {
		bad = append(bad, "livelock|"+res.Livelock)
	}
	if res.Panic != "" {
		bad = append(bad, "panic|"+strings.SplitN(res.Panic, "\n", 2)[0])
	}
	for l, n := range o.ev.loading {
		if n > 1 {
			bad = append(bad, fmt.Sprintf("module-executed-twice|%s executed %d times", l, n))
		}
	}
	if len(bad) > 0 {
		return bad
	}
	if !o.ret {
		return []string{"load-did-not-return|Load did not return"}
	}
	if g.Broken != 0 && g.loaded()[3] {
		// a module that cannot be loaded: every loader must be told so (and Load must return)
		if o.err == nil {
			bad = append(bad, "broken-module-not-reported|Load succeeded although a loaded module cannot be loaded")
		}
		return bad
	}
	if g.cyclic() {
		if o.err == nil {
			bad = append(bad, "cycle-not-reported|Load succeeded on a cyclic load graph")
		} else if !strings.Contains(o.err.Error(), "cyclic dependency") {
			bad = append(bad, "cycle-wrong-error|Load failed without a cyclic-dependency error: "+strings.ReplaceAll(o.err.Error(), "\n", " "))
		}
		return bad
	}
	if o.err != nil {
		return []string{"acyclic-load-failed|Load of an acyclic graph failed: " + strings.ReplaceAll(o.err.Error(), "\n", " ")}
	}
	var wantT, wantF []string
	for i := range fileLabel {
		if g.build(i) {
			pkg := strings.TrimSuffix(fileLabel[i], ":BUILD.dawn")
			wantT = append(wantT, pkg+":t")
			comp := strings.TrimPrefix(pkg, "//")
			if comp == "" {
				wantF = append(wantF, fmt.Sprintf("flag%d", i))
			} else {
				wantF = append(wantF, fmt.Sprintf("%s.flag%d", comp, i))
			}
		}
	}
	sort.Strings(wantT)
	sort.Strings(wantF)
	if strings.Join(o.targets, ",") != strings.Join(wantT, ",") {
		bad = append(bad, fmt.Sprintf("wrong-targets|targets %v, expected %v", o.targets, wantT))
	}
	if strings.Join(o.flags, ",") != strings.Join(wantF, ",") {
		bad = append(bad, fmt.Sprintf("wrong-flags|flags %v, expected %v", o.flags, wantF))
	}
	for i := range g.loaded() {
		if o.ev.loading[strings.Replace(fileLabel[i], "//", "module://", 1)] != 1 && o.ev.loading[fileLabel[i]] != 1 {
			found := false
			for l := range o.ev.loading {
				if strings.HasSuffix(l, strings.TrimPrefix(fileLabel[i], "//")) {
					found = true
				}
			}
			if !found {
				bad = append(bad, fmt.Sprintf("module-not-loaded|%s was never executed (loading events: %v)", fileLabel[i], o.ev.loading))
			}
		}
	}
	return bad
}

// ---- graph families ----------------------------------------------------------------------------

func curated() []graph {
	G := func(name string, n int, e ...[2]int) graph { return graph{Edges: e, NPkg: n, Name: name} }
	E := func(a, b int) [2]int { return [2]int{a, b} }
	const b0, b1, b2, h1, h2, b3 = 0, 1, 2, 3, 4, 5
	return []graph{
		G("no-loads", 3),
		G("chain", 2, E(b0, h1), E(h1, h2)),
		G("shared-helper", 3, E(b0, h1), E(b1, h1), E(b2, h1)),
		G("shared-helper-loading-helper", 3, E(b0, h1), E(b1, h1), E(b2, h1), E(h1, h2)),
		G("shared-helper-loading-helper-2pkg", 2, E(b0, h1), E(b1, h1), E(h1, h2)),
		G("shared-helper-loading-helper-4pkg", 4, E(b0, h1), E(b1, h1), E(b2, h1), E(b3, h1), E(h1, h2)),
		G("diamond", 2, E(b0, h1), E(b0, h2), E(b1, h2), E(b1, h1)),
		G("diamond-through-helpers", 3, E(b0, h1), E(b1, h2), E(h1, h2), E(b2, h2)),
		G("build-loads-build", 3, E(b0, b1), E(b1, b2)),
		G("build-loads-build-and-helper", 3, E(b0, b1), E(b1, h1), E(b2, h1), E(h1, h2)),
		G("two-builds-load-third", 3, E(b0, b2), E(b1, b2), E(b2, h1)),
		func() graph {
			g := G("build-loads-build-by-package-label", 3, E(b0, b1), E(b1, b2))
			g.Short = true
			return g
		}(),
		func() graph {
			g := G("two-builds-load-third-by-package-label", 3, E(b0, b2), E(b1, b2))
			g.Short = true
			return g
		}(),
		func() graph {
			g := G("two-builds-load-third-one-relative", 3, E(b0, b2), E(b1, b2), E(b2, h1))
			g.Rel = true
			return g
		}(),
		func() graph {
			g := G("shared-helper-loading-helper-one-relative", 3, E(b0, h1), E(b1, h1), E(b2, h1), E(h1, h2))
			g.Rel = true
			return g
		}(),
		func() graph {
			g := G("build-2cycle-behind-relative-load", 3, E(b0, b1), E(b1, b2), E(b2, b1))
			g.Rel = true
			return g
		}(),
		func() graph {
			g := G("shared-helper-of-unknown-project", 3, E(b0, h1), E(b1, h1), E(b2, h1))
			g.Broken = 1
			return g
		}(),
		func() graph {
			g := G("shared-helper-file-missing", 3, E(b0, h1), E(b1, h1), E(b2, h1))
			g.Broken = 2
			return g
		}(),
		func() graph {
			g := G("shared-helper-loading-missing-helper", 3, E(b0, h2), E(b1, h2), E(h2, h1), E(b2, h1))
			g.Broken = 2
			return g
		}(),
		G("self-load-build", 2, E(b0, b0)),
		G("self-load-helper", 2, E(b0, h1), E(h1, h1), E(b1, h1)),
		G("2cycle-helpers", 2, E(b0, h1), E(h1, h2), E(h2, h1)),
		G("2cycle-helpers-two-entries", 2, E(b0, h1), E(b1, h2), E(h1, h2), E(h2, h1)),
		G("2cycle-builds", 2, E(b0, b1), E(b1, b0)),
		G("2cycle-builds-plus-watcher", 3, E(b0, b1), E(b1, b0), E(b2, b0)),
		G("3cycle-builds", 3, E(b0, b1), E(b1, b2), E(b2, b0)),
		G("3cycle-mixed", 3, E(b0, h1), E(h1, b1), E(b1, b0), E(b2, h1)),
		G("3cycle-helpers-builds", 3, E(b0, h1), E(h1, h2), E(h2, b0), E(b1, h2), E(b2, h1)),
		G("cycle-behind-tail", 3, E(b0, b1), E(b1, h1), E(h1, b1), E(b2, b0)),
		G("cycle-beside-acyclic", 3, E(b0, h1), E(h1, h2), E(h2, h1), E(b1, h2), E(b2, b1)),
	}
}

// enumerated returns all graphs with at most maxEdges load edges over npkg packages and two
// helpers, up to the symmetries p1<->p2 and h1<->h2, where every helper that has an outgoing
// or incoming edge is reachable from some package.
func enumerated(npkg, maxEdges int) []graph {
	files := []int{0, 1, 2, 3, 4}[:]
	if npkg == 2 {
		files = []int{0, 1, 3, 4}
	}
	var pairs [][2]int
	for _, a := range files {
		for _, b := range files {
			pairs = append(pairs, [2]int{a, b})
		}
	}
	seen := map[string]bool{}
	var out []graph
	canon := func(es [][2]int) string {
		best := ""
		perms := [][]int{{0, 1, 2, 3, 4}, {0, 2, 1, 3, 4}, {0, 1, 2, 4, 3}, {0, 2, 1, 4, 3}}
		if npkg == 2 {
			perms = [][]int{{0, 1, 2, 3, 4}, {0, 1, 2, 4, 3}}
		}
		for _, p := range perms {
			var ss []string
			for _, e := range es {
				ss = append(ss, fmt.Sprintf("%d>%d", p[e[0]], p[e[1]]))
			}
			sort.Strings(ss)
			s := strings.Join(ss, ",")
			if best == "" || s < best {
				best = s
			}
		}
		return best
	}
	var rec func(start int, es [][2]int)
	rec = func(start int, es [][2]int) {
		g := graph{Edges: append([][2]int{}, es...), NPkg: npkg, Name: "enum"}
		ok := true
		ld := g.loaded()
		for _, e := range es {
			if !ld[e[0]] {
				ok = false // an edge out of a file nobody loads is never seen
			}
		}
		if ok {
			c := canon(es)
			if !seen[c] {
				seen[c] = true
				out = append(out, g)
			}
		}
		if len(es) == maxEdges {
			return
		}
		for i := start; i < len(pairs); i++ {
			rec(i+1, append(es, pairs[i]))
		}
	}
	rec(0, nil)
	return out
}

type job struct {
	g     graph
	bound int
}

type replayFile struct {
	Graph    graph             `json:"graph"`
	Files    map[string]string `json:"files"`
	Choices  []int             `json:"choices"`
	Bound    int               `json:"bound"`
	Observed []string          `json:"observed"`
	Order    []string          `json:"module_loading_order"`
	Logs     any               `json:"thread_logs"`
}

func main() {
	flag.Parse()
	r := vlib.Start(*fAs)
	if *fFree > 0 {
		// race pass: real goroutines, real sync; the detector reports unsynchronised accesses
		n := 0
		gs := curated()
		for _, g := range gs {
			root := filepath.Join(r.Scratch, "freeproj")
			g.write(root)
			for it := 0; it < *fFree; it++ {
				os.RemoveAll(filepath.Join(root, ".dawn"))
				ev := &events{Events: dawn.DiscardEvents, loading: map[string]int{}}
				done := make(chan error, 1)
				go func() { _, err := dawn.Load(root, &dawn.LoadOptions{Events: ev}); done <- err }()
				select {
				case err := <-done:
					if wantErr := g.cyclic() || g.Broken != 0 && g.loaded()[3]; wantErr != (err != nil) {
						fmt.Printf("VIOLATION property=C06 replay=-\n  free-running: graph %s cyclic=%v but Load returned %v\n", g, g.cyclic(), err)
						os.Exit(1)
					}
				case <-time.After(60 * time.Second):
					fmt.Printf("VIOLATION property=C06 replay=-\n  free-running: Load of %s did not return within 60s\n", g)
					os.Exit(1)
				}
				n++
			}
		}
		fmt.Printf("C06 race pass: %d free-running loads of %d graphs, no data race reported by the detector\n", n, len(gs))
		os.Exit(0)
	}
	if r.ReplayIn != "" {
		var rf replayFile
		r.LoadReplay(&rf)
		root := filepath.Join(r.Scratch, "proj")
		rf.Graph.write(root)
		o := runOnce(root, rf.Graph, rf.Choices, true)
		bad := verdicts(rf.Graph, o)
		fmt.Printf("graph: %s\nschedule: %v\nmodule executions: %v\nLoad returned: %v\n", rf.Graph, rf.Choices, o.ev.order, o.err)
		if len(bad) == 0 {
			fmt.Println("observed: no violation on this tree")
			os.Exit(0)
		}
		for _, b := range bad {
			fmt.Println("observed:", b)
		}
		fmt.Printf("VIOLATION property=C06 replay=%s\n", r.ReplayIn)
		os.Exit(1)
	}
	var jobs []job
	for _, g := range curated() {
		b := 2
		if g.NPkg >= 4 {
			b = 1
		}
		if r.Thorough() {
			b = 3
			if g.NPkg >= 4 {
				b = 2
			}
		}
		jobs = append(jobs, job{g, b})
	}
	if r.Thorough() {
		for _, g := range enumerated(3, 3) {
			jobs = append(jobs, job{g, 2})
		}
		for _, g := range enumerated(2, 4) {
			jobs = append(jobs, job{g, -1})
		}
	} else {
		for _, g := range enumerated(2, 3) {
			jobs = append(jobs, job{g, 2})
		}
		for _, g := range enumerated(3, 2) {
			jobs = append(jobs, job{g, 1})
		}
	}
	if *fOnly != "" {
		var js []job
		for _, j := range jobs {
			if strings.Contains(j.g.String(), *fOnly) {
				js = append(js, j)
			}
		}
		jobs = js
	}
	r.Distribute(len(jobs), func(ji int) {
		j := jobs[ji]
		g := j.g
		root := filepath.Join(r.Scratch, "proj")
		g.write(root)
		outs := map[string]bool{}
		var basePrints map[string]string
		ex := &vsched.Explorer{Bound: j.bound, Prune: true, MaxExecs: 400_000}
		ex.Run = func(prefix []int) *vsched.Result {
			o := runOnce(root, g, prefix, false)
			bad := verdicts(g, o)
			if *fAs == "C02" {
				bad = nil // only the fingerprint oracle below is C02's
			}
			if o.err == nil && o.ret {
				if basePrints == nil {
					basePrints = o.prints
				} else {
					for l, h := range o.prints {
						if basePrints[l] != h {
							bad = append(bad, fmt.Sprintf("fingerprint-depends-on-load-order|the fingerprint of %s is %s under this interleaving of the module loads and %s under the first one", l, h, basePrints[l]))
						}
					}
				}
				r.Add("fingerprints_compared", int64(len(o.prints)))
			}
			errs := ""
			if o.err != nil {
				errs = "err"
			}
			outs[strings.Join(o.ev.order, " ")+"|"+errs] = true
			if len(bad) > 0 {
				o2 := runOnce(root, g, o.res.Choices, true)
				b2 := verdicts(g, o2)
				if *fAs == "C02" {
					b2 = nil
					for l, h := range o2.prints {
						if basePrints != nil && basePrints[l] != h {
							b2 = append(b2, "fingerprint-depends-on-load-order|")
						}
					}
					if len(b2) > 1 {
						b2 = b2[:1]
					}
					if len(bad) > 1 {
						bad = bad[:1]
					}
				}
				if sigs(b2) != sigs(bad) {
					vlib.Fatalf("violation did not reproduce on replay: %v vs %v in %s", bad, b2, g)
				}
				files := map[string]string{}
				for i := range fileLabel {
					if b, err := os.ReadFile(filepath.Join(root, filePath[i])); err == nil {
						files[filePath[i]] = string(b)
					}
				}
				for _, b := range bad {
					p := strings.SplitN(b, "|", 2)
					r.Violation(*fAs+":"+p[0], fmt.Sprintf("%s [%s] schedule=%v", p[1], g, o.res.Choices), replayFile{g, files, o.res.Choices, j.bound, bad, o2.ev.order, o2.res.Logs})
				}
				o.res.Points = nil
			}
			return o.res
		}
		ex.Check = func(*vsched.Result) bool { return !r.Expired() }
		ex.Explore()
		if ex.Capped != "" || ex.Stopped {
			r.Cap("exploration cut in some graphs: " + ex.Capped + map[bool]string{true: " wall-clock budget", false: ""}[ex.Stopped])
		}
		r.Add("executions", ex.Execs)
		r.Add("graphs", 1)
		r.Add("distinct_load_orders", int64(len(outs)))
		r.Max("points_per_execution", int64(ex.MaxPoints))
		r.Max("steps_per_execution", int64(ex.MaxSteps))
		if len(outs) > 1 {
			r.Add("graphs_with_contention", 1)
		}
		if g.cyclic() {
			r.Add("cyclic_graphs", 1)
		}
		if *fOnly != "" {
			fmt.Printf("graph %s bound=%d execs=%d points=%d steps=%d orders=%d\n", g, j.bound, ex.Execs, ex.MaxPoints, ex.MaxSteps, len(outs))
		}
		if ji%25 == 0 {
			r.Sample(map[string]any{"graph": g.String(), "bound": j.bound, "executions": ex.Execs, "distinct_load_orders": len(outs), "cyclic": g.cyclic()})
		}
	})
	r.Assumptions = []string{
		"scheduling points at every mutex/cond/WaitGroup operation and goroutine spawn of project.go and module.go; sequential consistency; fair scheduling for termination",
		"the Starlark interpreter and file reads are deterministic functions of the tree (asserted by replaying every violating schedule)",
	}
	r.Finish(vlib.Coverage{
		Evaluations:        r.Get("executions"),
		DistinctNontrivial: r.Get("graphs_with_contention"),
		Rule:               "one evaluation = one complete interleaving of dawn.Load on a generated project whose files realise one load graph; graphs = curated family + all graphs with <=N edges up to symmetry; non-trivial = graph whose interleavings produce more than one module-execution order",
		States:             r.Get("distinct_load_orders"),
		Transitions:        r.Get("executions"),
		Exhaustive:         true,
		Outcomes:           r.Get("distinct_load_orders"),
		Bounds:             map[string]any{"packages": "2-4", "helpers": 2, "graphs": len(jobs), "cyclic_graphs": r.Get("cyclic_graphs")},
	})
}

func sigs(bad []string) string {
	var s []string
	for _, b := range bad {
		s = append(s, strings.SplitN(b, "|", 2)[0])
	}
	sort.Strings(s)
	return strings.Join(s, ";")
}
