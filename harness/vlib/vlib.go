// Package vlib is the common reporting layer of every check: command-line contract,
// violation de-duplication by cause signature, known-findings lookup, replay files,
// evidence files (EVIDENCE.schema.json) and sharding of work over worker processes.
package vlib

import (
	"bytes"
	"encoding/json"
	"flag"
	"fmt"
	"os"
	"os/exec"
	"path/filepath"
	"runtime/debug"
	"sort"
	"strconv"
	"strings"
	"sync"
	"time"
)

// Known is one entry of /verif/known_findings.json.
type Known struct {
	Property  string `json:"property"`
	Signature string `json:"signature"`
	Status    string `json:"status"` // "open" or "fixed"
	Commit    string `json:"commit,omitempty"`
	What      string `json:"what"`
}

// Violation is one failing case with its cause signature.
type Violation struct {
	Signature string `json:"signature"`
	What      string `json:"what"`
	Replay    any    `json:"replay"`
	Count     int64  `json:"count"`
}

type Run struct {
	Prop     string
	Tier     string
	Seed     int
	Evidence string
	KnownF   string
	Replays  string
	Budget   time.Duration // wall-clock budget for the exploration (0 = none)
	ReplayIn string        // --replay <path>
	Workers  int
	Scratch  string

	worker, nworkers, startAfter int
	workerOut                    string

	start time.Time
	mu    sync.Mutex
	st    state
	known []Known

	Assumptions []string
	Extra       map[string]any // extra coverage keys
	// OnCrash is called in the parent when a worker process dies while working on item idx.
	OnCrash   func(idx int, output string)
	lastFlush time.Time
}

// state is everything that is merged from workers into the parent.
type state struct {
	Viol     map[string]*Violation      `json:"viol"`
	Counters map[string]int64           `json:"counters"`
	Sets     map[string]map[string]bool `json:"sets"`
	Samples  []any                      `json:"samples"`
	Caps     []string                   `json:"caps"`
	DoneThru int                        `json:"done_thru"`
	Complete bool                       `json:"complete"`
}

var (
	fTier       = flag.String("tier", "quick", "quick|thorough")
	fEvidence   = flag.String("evidence", "", "evidence file to write")
	fKnown      = flag.String("known", "", "known_findings.json")
	fPass       = flag.String("pass", "", "name of a further pass of the same check: its coverage is added to the evidence file the first pass wrote")
	fReplays    = flag.String("replays", "", "directory for replay artefacts")
	fBudget     = flag.Duration("budget", 0, "wall-clock budget")
	fReplay     = flag.String("replay", "", "replay one recorded case")
	fWorkers    = flag.Int("workers", 16, "parallel workers")
	fScratch    = flag.String("scratch", "", "scratch directory (removed by the caller)")
	fWorker     = flag.Int("worker", -1, "internal: worker index")
	fNWorkers   = flag.Int("nworkers", 0, "internal: number of workers")
	fStartAfter = flag.Int("startafter", -1, "internal: skip items <= this index")
	fWorkerOut  = flag.String("workerout", "", "internal: partial result file")
)

// Start parses the common flags.
func Start(prop string) *Run {
	if !flag.Parsed() {
		flag.Parse()
	}
	r := &Run{Prop: prop, Tier: *fTier, Evidence: *fEvidence, KnownF: *fKnown, Replays: *fReplays,
		Budget: *fBudget, ReplayIn: *fReplay, Workers: *fWorkers, Scratch: *fScratch,
		worker: *fWorker, nworkers: *fNWorkers, startAfter: *fStartAfter, workerOut: *fWorkerOut,
		start: time.Now(), Extra: map[string]any{}}
	r.st = newState()
	if s := os.Getenv("VERIF_SEED"); s != "" {
		r.Seed, _ = strconv.Atoi(s)
	}
	if r.Tier != "quick" && r.Tier != "thorough" {
		Fatalf("bad tier %q", r.Tier)
	}
	if r.IsWorker() {
		debug.SetMaxStack(512 << 20) // a runaway recursion dies after 512 MiB of stack, not 1 GiB
	}
	if r.Scratch == "" {
		d, err := os.MkdirTemp("", "verif-scratch-")
		if err != nil {
			Fatalf("%v", err)
		}
		r.Scratch = d
	}
	if r.KnownF != "" {
		b, err := os.ReadFile(r.KnownF)
		if err != nil {
			Fatalf("reading known findings: %v", err)
		}
		if err := json.Unmarshal(b, &r.known); err != nil {
			Fatalf("parsing known findings: %v", err)
		}
	}
	return r
}

func newState() state {
	return state{Viol: map[string]*Violation{}, Counters: map[string]int64{}, Sets: map[string]map[string]bool{}, DoneThru: -1}
}

// LoadReplay reads the "replay" member of a replay artefact written by Finish into v.
func (r *Run) LoadReplay(v any) {
	b, err := os.ReadFile(r.ReplayIn)
	if err != nil {
		Fatalf("reading replay: %v", err)
	}
	var f struct {
		Signature string          `json:"signature"`
		What      string          `json:"what"`
		Replay    json.RawMessage `json:"replay"`
	}
	if err := json.Unmarshal(b, &f); err != nil {
		Fatalf("parsing replay: %v", err)
	}
	fmt.Printf("replaying %s\n  recorded: %s\n", f.Signature, f.What)
	if err := json.Unmarshal(f.Replay, v); err != nil {
		Fatalf("parsing replay body: %v", err)
	}
}

// Fatalf reports a harness error (exit 2): never a verdict.
func Fatalf(format string, a ...any) {
	fmt.Fprintf(os.Stderr, "HARNESS-ERROR: "+format+"\n", a...)
	os.Exit(2)
}

func (r *Run) Thorough() bool { return r.Tier == "thorough" }
func (r *Run) IsWorker() bool { return r.worker >= 0 }
func (r *Run) WorkerIndex() int {
	if r.worker < 0 {
		return 0
	}
	return r.worker
}

func (r *Run) Expired() bool {
	return r.Budget != 0 && time.Since(r.start) > r.Budget
}

// Cap records that a cap was hit (the run is then not exhaustive for that part).
func (r *Run) Cap(what string) {
	r.mu.Lock()
	for _, c := range r.st.Caps {
		if c == what {
			r.mu.Unlock()
			return
		}
	}
	r.st.Caps = append(r.st.Caps, what)
	r.mu.Unlock()
}

// Sample records an actual explored case for the evidence file (keeps the first few).
func (r *Run) Sample(s any) {
	r.mu.Lock()
	if len(r.st.Samples) < 6 {
		r.st.Samples = append(r.st.Samples, s)
	}
	r.mu.Unlock()
}

// Add adds n to a named counter.
func (r *Run) Add(name string, n int64) {
	r.mu.Lock()
	r.st.Counters[name] += n
	r.mu.Unlock()
}

// Max keeps the maximum of a named counter.
func (r *Run) Max(name string, n int64) {
	r.mu.Lock()
	if n > r.st.Counters["max:"+name] {
		r.st.Counters["max:"+name] = n
	}
	r.mu.Unlock()
}

func (r *Run) Get(name string) int64 {
	r.mu.Lock()
	defer r.mu.Unlock()
	return r.st.Counters[name]
}

func (r *Run) GetMax(name string) int64 { return r.Get("max:" + name) }

// Outcome records a member of a named set of distinct observed outcomes (bounded at 100000).
func (r *Run) Outcome(set, member string) {
	r.mu.Lock()
	m := r.st.Sets[set]
	if m == nil {
		m = map[string]bool{}
		r.st.Sets[set] = m
	}
	if len(m) < 100000 {
		m[member] = true
	}
	r.mu.Unlock()
}

func (r *Run) NumOutcomes(set string) int64 {
	r.mu.Lock()
	defer r.mu.Unlock()
	return int64(len(r.st.Sets[set]))
}

func (r *Run) Outcomes(set string) []string {
	r.mu.Lock()
	defer r.mu.Unlock()
	var o []string
	for k := range r.st.Sets[set] {
		o = append(o, k)
	}
	sort.Strings(o)
	return o
}

// Violation records a failing case. Only the first replay per signature is kept.
func (r *Run) Violation(sig, what string, replay any) {
	r.mu.Lock()
	defer r.mu.Unlock()
	v, ok := r.st.Viol[sig]
	if !ok {
		v = &Violation{Signature: sig, What: what, Replay: replay}
		r.st.Viol[sig] = v
	}
	v.Count++
}

func (r *Run) NumViolations() int {
	r.mu.Lock()
	defer r.mu.Unlock()
	return len(r.st.Viol)
}

func (r *Run) isKnownOpen(sig string) *Known {
	for i := range r.known {
		k := &r.known[i]
		if k.Property == r.Prop && k.Status == "open" && k.Signature == sig {
			return k
		}
	}
	return nil
}

func (r *Run) merge(o *state) {
	r.mu.Lock()
	defer r.mu.Unlock()
	for sig, v := range o.Viol {
		if mine, ok := r.st.Viol[sig]; ok {
			mine.Count += v.Count
		} else {
			r.st.Viol[sig] = v
		}
	}
	for k, v := range o.Counters {
		if strings.HasPrefix(k, "max:") {
			if v > r.st.Counters[k] {
				r.st.Counters[k] = v
			}
		} else {
			r.st.Counters[k] += v
		}
	}
	for s, m := range o.Sets {
		if r.st.Sets[s] == nil {
			r.st.Sets[s] = map[string]bool{}
		}
		for k := range m {
			r.st.Sets[s][k] = true
		}
	}
	for _, s := range o.Samples {
		if len(r.st.Samples) < 6 {
			r.st.Samples = append(r.st.Samples, s)
		}
	}
	for _, c := range o.Caps {
		dup := false
		for _, x := range r.st.Caps {
			dup = dup || x == c
		}
		if !dup {
			r.st.Caps = append(r.st.Caps, c)
		}
	}
}

func (r *Run) flush(doneThru int, complete bool) {
	r.mu.Lock()
	r.st.DoneThru, r.st.Complete = doneThru, complete
	b, err := json.Marshal(&r.st)
	r.mu.Unlock()
	if err != nil {
		Fatalf("flush: %v", err)
	}
	tmp := r.workerOut + ".tmp"
	if err := os.WriteFile(tmp, b, 0o644); err != nil {
		Fatalf("flush: %v", err)
	}
	os.Rename(tmp, r.workerOut)
}

// workerVMLimitKB is the address-space limit of one worker process (ulimit -v, in KiB).
var workerVMLimitKB = "12582912" // 12 GiB

// workerProcs is GOMAXPROCS of a worker process. Under the cooperative scheduler exactly one
// goroutine runs at a time, and hand-offs are fastest on a single P.
var workerProcs = func() string {
	if v := os.Getenv("VERIF_WORKER_PROCS"); v != "" {
		return v
	}
	return "1"
}()

// Distribute runs f(i) for every i in [0,n) spread over worker *processes* (code under a
// global controlled scheduler, or code that may crash fatally, needs one process per
// worker). In the parent it returns after all workers' results are merged; a worker
// process exits inside Distribute. A harness may call Distribute once.
func (r *Run) Distribute(n int, f func(i int)) {
	if r.IsWorker() {
		last := r.startAfter
		for i := 0; i < n; i++ {
			if i%r.nworkers != r.worker || i <= r.startAfter {
				continue
			}
			if stopBefore >= 0 && i >= stopBefore {
				break
			}
			os.WriteFile(r.workerOut+".cur", []byte(strconv.Itoa(i)), 0o644)
			f(i)
			last = i
			if time.Since(r.lastFlush) > 500*time.Millisecond {
				r.flush(last, false)
				r.lastFlush = time.Now()
			}
		}
		r.flush(last, true)
		os.Exit(0)
	}
	if r.Workers == 1 {
		// in-process (debugging, or harnesses that are cheap)
		for i := 0; i < n; i++ {
			f(i)
		}
		return
	}
	nw := r.Workers
	if nw > n {
		nw = n
	}
	if nw < 1 {
		nw = 1
	}
	var wg sync.WaitGroup
	for k := 0; k < nw; k++ {
		wg.Add(1)
		go func(k int) {
			defer wg.Done()
			startAfter := -1
			for attempt := 0; ; attempt++ {
				out := filepath.Join(r.Scratch, fmt.Sprintf("worker%d.%d.json", k, attempt))
				wscratch := filepath.Join(r.Scratch, fmt.Sprintf("w%d", k))
				os.MkdirAll(wscratch, 0o755)
				args := []string{}
				skip := false
				for _, a := range os.Args[1:] {
					if skip {
						skip = false
						continue
					}
					if a == "-scratch" || a == "--scratch" || a == "-evidence" || a == "--evidence" {
						skip = true
						continue
					}
					args = append(args, a)
				}
				remaining := time.Duration(0)
				if r.Budget != 0 {
					remaining = r.Budget - time.Since(r.start)
					if remaining < time.Second {
						remaining = time.Second
					}
				}
				args = append(args, "-worker", strconv.Itoa(k), "-nworkers", strconv.Itoa(nw), "-startafter", strconv.Itoa(startAfter),
					"-workerout", out, "-scratch", wscratch, "-budget", remaining.String())
				// workers run under an address-space limit: code under test that recurses or allocates
				// without bound must kill one worker, not the machine
				cmd := exec.Command("/bin/sh", append([]string{"-c", "ulimit -v " + workerVMLimitKB + " 2>/dev/null; exec \"$0\" \"$@\"", os.Args[0]}, args...)...)
				var buf bytes.Buffer
				cmd.Stdout, cmd.Stderr = &buf, &buf
				cmd.Env = append(os.Environ(), "GOMAXPROCS="+workerProcs)
				err := cmd.Run()
				var st state
				b, rerr := os.ReadFile(out)
				if rerr == nil {
					st = newState()
					if jerr := json.Unmarshal(b, &st); jerr != nil {
						Fatalf("worker %d: bad partial file: %v", k, jerr)
					}
					r.merge(&st)
				}
				if err == nil && rerr == nil && st.Complete {
					if buf.Len() > 0 && os.Getenv("VERIF_VERBOSE") != "" {
						os.Stderr.Write(buf.Bytes())
					}
					return
				}
				// abnormal exit: attribute to the item in progress, restart after it
				curB, _ := os.ReadFile(out + ".cur")
				cur, cerr := strconv.Atoi(strings.TrimSpace(string(curB)))
				tail := buf.String()
				if len(tail) > 4000 {
					tail = tail[:2000] + "\n...\n" + tail[len(tail)-2000:]
				}
				if ee, ok := err.(*exec.ExitError); ok && ee.ExitCode() == 2 && !strings.Contains(tail, "fatal error") && !strings.Contains(tail, "panic:") {
					fmt.Fprint(os.Stderr, tail)
					Fatalf("worker %d reported a harness error", k)
				}
				if cerr != nil || r.OnCrash == nil {
					fmt.Fprint(os.Stderr, tail)
					Fatalf("worker %d died (%v) on item %v", k, err, string(curB))
				}
				r.OnCrash(cur, tail)
				// items between the last flush and cur are redone (their counters were not merged)
				if rerr == nil {
					startAfter = st.DoneThru
				}
				if cur > startAfter {
					// redo (startAfter, cur) but skip cur itself: handled by running a one-off worker range
					// simplification: resume after the crashed item; items in (DoneThru, cur) of this
					// worker are re-run first with a dedicated pass.
					r.redo(k, nw, startAfter, cur, f)
					startAfter = cur
				}
				if attempt > 200 {
					Fatalf("worker %d: too many crashes", k)
				}
			}
		}(k)
	}
	wg.Wait()
}

// redo re-runs, in fresh worker processes, the items of worker k in (after, before) that were
// processed but not flushed before a crash. It is rare and small (<= 0.5 s of work).
func (r *Run) redo(k, nw, after, before int, f func(int)) {
	// The lost items completed without crashing, so they cannot have been violations that
	// kill the process; their in-memory violations/counters are lost. Re-run them in a worker
	// limited to that range by using startafter and an upper bound env.
	if before-after <= 1 {
		return
	}
	out := filepath.Join(r.Scratch, fmt.Sprintf("redo%d.%d.json", k, before))
	args := []string{}
	skip := false
	for _, a := range os.Args[1:] {
		if skip {
			skip = false
			continue
		}
		if a == "-scratch" || a == "--scratch" || a == "-evidence" || a == "--evidence" {
			skip = true
			continue
		}
		args = append(args, a)
	}
	wscratch := filepath.Join(r.Scratch, fmt.Sprintf("w%d", k))
	args = append(args, "-worker", strconv.Itoa(k), "-nworkers", strconv.Itoa(nw), "-startafter", strconv.Itoa(after), "-workerout", out, "-scratch", wscratch)
	cmd := exec.Command(os.Args[0], args...)
	cmd.Env = append(os.Environ(), "GOMAXPROCS=2", "VERIF_STOP_BEFORE="+strconv.Itoa(before))
	cmd.Run()
	if b, err := os.ReadFile(out); err == nil {
		st := newState()
		if json.Unmarshal(b, &st) == nil {
			r.merge(&st)
		}
	}
}

// StopBefore is consulted by Distribute's worker loop through the environment (redo passes).
func init() {
	if s := os.Getenv("VERIF_STOP_BEFORE"); s != "" {
		n, _ := strconv.Atoi(s)
		stopBefore = n
	}
}

var stopBefore = -1

// Coverage is what Finish writes under "coverage".
type Coverage struct {
	Evaluations        int64
	DistinctNontrivial int64
	Rule               string
	States             int64
	Transitions        int64
	TracesValidated    int64
	Exhaustive         bool
	Outcomes           int64 // distinct observed outcomes
	Bounds             map[string]any
}

func sanitize(s string) string {
	var b strings.Builder
	for _, c := range s {
		switch {
		case c >= 'a' && c <= 'z', c >= 'A' && c <= 'Z', c >= '0' && c <= '9', c == '-', c == '_', c == '.':
			b.WriteRune(c)
		default:
			b.WriteByte('_')
		}
	}
	if b.Len() > 80 {
		return b.String()[:80]
	}
	return b.String()
}

// Finish writes the evidence file, prints the verdict lines and exits.
func (r *Run) Finish(c Coverage) {
	if r.IsWorker() {
		// a harness that did not call Distribute in worker mode
		r.flush(1<<30, true)
		os.Exit(0)
	}
	wall := time.Since(r.start).Seconds()
	unknown := 0
	var order []string
	for sig := range r.st.Viol {
		order = append(order, sig)
	}
	sort.Strings(order)
	var lines []string
	for _, sig := range order {
		v := r.st.Viol[sig]
		if k := r.isKnownOpen(sig); k != nil {
			lines = append(lines, fmt.Sprintf("KNOWN-FINDING: property=%s %s [%s] (%d cases; e.g. %s)", r.Prop, k.What, sig, v.Count, v.What))
			continue
		}
		unknown++
		path := "-"
		if r.Replays != "" {
			os.MkdirAll(r.Replays, 0o755)
			path = filepath.Join(r.Replays, sanitize(sig)+".json")
			b, _ := json.MarshalIndent(map[string]any{"property": r.Prop, "signature": sig, "what": v.What, "count": v.Count, "tier": r.Tier, "replay": v.Replay}, "", " ")
			if err := os.WriteFile(path, b, 0o644); err != nil {
				Fatalf("writing replay: %v", err)
			}
		}
		lines = append(lines, fmt.Sprintf("VIOLATION property=%s replay=%s", r.Prop, path))
		lines = append(lines, fmt.Sprintf("  signature=%s cases=%d: %s", sig, v.Count, v.What))
	}
	if len(r.st.Caps) > 0 {
		c.Exhaustive = false
	}
	if r.Evidence != "" {
		cov := map[string]any{
			"evaluations":                   c.Evaluations,
			"distinct_nontrivial":           c.DistinctNontrivial,
			"rule":                          c.Rule,
			"samples":                       r.st.Samples,
			"states":                        c.States,
			"transitions":                   c.Transitions,
			"traces_validated_against_impl": c.TracesValidated,
			"exhaustive":                    c.Exhaustive,
			"distinct_outcomes":             c.Outcomes,
			"bounds":                        c.Bounds,
			"caps_hit":                      r.st.Caps,
			"counters":                      r.st.Counters,
		}
		if len(r.st.Samples) == 0 {
			cov["samples"] = []any{"(none recorded)"}
		}
		if r.st.Caps == nil {
			cov["caps_hit"] = []string{}
		}
		for k, v := range r.Extra {
			cov[k] = v
		}
		sigs := []map[string]any{}
		for _, sig := range order {
			v := r.st.Viol[sig]
			sigs = append(sigs, map[string]any{"signature": sig, "cases": v.Count, "known_open": r.isKnownOpen(sig) != nil, "example": v.What})
		}
		cov["violation_signatures"] = sigs
		ev := map[string]any{
			"property_id": r.Prop,
			"tier":        r.Tier,
			"seed":        r.Seed,
			"level":       "model_checking",
			"coverage":    cov,
			"assumptions": r.Assumptions,
			"wall_s":      wall,
			"violations":  unknown,
		}
		if *fPass != "" {
			ev = addPass(r.Evidence, *fPass, ev)
		}
		b, _ := json.MarshalIndent(ev, "", " ")
		os.MkdirAll(filepath.Dir(r.Evidence), 0o755)
		if err := os.WriteFile(r.Evidence, append(b, '\n'), 0o644); err != nil {
			Fatalf("writing evidence: %v", err)
		}
	}
	for _, l := range lines {
		fmt.Println(l)
	}
	fmt.Printf("%s %s: evaluations=%d distinct_nontrivial=%d states=%d transitions=%d outcomes=%d exhaustive=%v caps=%v wall=%.1fs violations=%d\n",
		r.Prop, r.Tier, c.Evaluations, c.DistinctNontrivial, c.States, c.Transitions, c.Outcomes, c.Exhaustive, r.st.Caps, wall, unknown)
	if unknown > 0 {
		os.Exit(1)
	}
	os.Exit(0)
}

// addPass folds the evidence of a further pass of one check into the evidence its first pass
// wrote: the pass is kept whole under coverage.passes, the totals (evaluations, states,
// transitions, validated traces, violations) are summed, exhaustive is the conjunction and the
// caps and violation signatures are concatenated.
func addPass(path, name string, ev map[string]any) map[string]any {
	b, err := os.ReadFile(path)
	var first map[string]any
	if err != nil || json.Unmarshal(b, &first) != nil || first["property_id"] != ev["property_id"] || first["tier"] != ev["tier"] {
		return ev
	}
	fc, _ := first["coverage"].(map[string]any)
	nc, _ := ev["coverage"].(map[string]any)
	if fc == nil || nc == nil {
		return ev
	}
	num := func(x any) float64 {
		switch v := x.(type) {
		case float64:
			return v
		case int64:
			return float64(v)
		case int:
			return float64(v)
		}
		return 0
	}
	passes, _ := fc["passes"].([]any)
	if passes == nil {
		main := map[string]any{"pass": "first"}
		for k, v := range fc {
			main[k] = v
		}
		passes = []any{main}
	}
	this := map[string]any{"pass": name, "wall_s": ev["wall_s"], "assumptions": ev["assumptions"]}
	for k, v := range nc {
		this[k] = v
	}
	passes = append(passes, this)
	fc["passes"] = passes
	for _, k := range []string{"evaluations", "states", "transitions", "traces_validated_against_impl"} {
		fc[k] = int64(num(fc[k]) + num(nc[k]))
	}
	fe, _ := fc["exhaustive"].(bool)
	ne, _ := nc["exhaustive"].(bool)
	fc["exhaustive"] = fe && ne
	caps, _ := fc["caps_hit"].([]any)
	switch c := nc["caps_hit"].(type) {
	case []string:
		for _, x := range c {
			caps = append(caps, name+": "+x)
		}
	}
	if caps == nil {
		caps = []any{}
	}
	fc["caps_hit"] = caps
	sigs, _ := fc["violation_signatures"].([]any)
	if ns, ok := nc["violation_signatures"].([]map[string]any); ok {
		for _, x := range ns {
			sigs = append(sigs, x)
		}
	}
	if sigs == nil {
		sigs = []any{}
	}
	fc["violation_signatures"] = sigs
	first["violations"] = int64(num(first["violations"]) + num(ev["violations"]))
	first["wall_s"] = num(first["wall_s"]) + num(ev["wall_s"])
	return first
}

// Parallel runs f(i) for i in [0,n) on r.Workers goroutines (in-process; for pure code).
func (r *Run) Parallel(n int, f func(i int)) {
	w := r.Workers
	if w < 1 {
		w = 1
	}
	var wg sync.WaitGroup
	ch := make(chan int)
	for k := 0; k < w; k++ {
		wg.Add(1)
		go func() {
			defer wg.Done()
			for i := range ch {
				f(i)
			}
		}()
	}
	for i := 0; i < n; i++ {
		ch <- i
	}
	close(ch)
	wg.Wait()
}
