// Package vlib is the common reporting layer of every check: command-line contract,
// violation de-duplication by signature, known-findings lookup, replay files and
// evidence files (EVIDENCE.schema.json).
package vlib

import (
	"encoding/json"
	"flag"
	"fmt"
	"os"
	"path/filepath"
	"sort"
	"strconv"
	"strings"
	"sync"
	"time"
)

// Known is one entry of /verif/known_findings.json.
type Known struct {
	Property  string `json:"property"`
	Signature string `json:"signature"`
	Status    string `json:"status"` // "open" or "fixed"
	Commit    string `json:"commit,omitempty"`
	What      string `json:"what"`
}

// Violation is one failing case with its cause signature.
type Violation struct {
	Signature string `json:"signature"`
	What      string `json:"what"`
	Replay    any    `json:"replay"`
	Count     int    `json:"count"`
}

type Run struct {
	Prop     string
	Tier     string
	Seed     int
	Evidence string
	KnownF   string
	Replays  string
	Budget   time.Duration // wall-clock budget for the exploration (0 = none)
	ReplayIn string        // --replay <path>
	Workers  int
	Scratch  string

	start time.Time
	mu    sync.Mutex
	viol  map[string]*Violation
	order []string
	known []Known

	Assumptions []string
	Extra       map[string]any // extra coverage keys
	samples     []any
	caps        []string
}

var (
	fTier     = flag.String("tier", "quick", "quick|thorough")
	fEvidence = flag.String("evidence", "", "evidence file to write")
	fKnown    = flag.String("known", "", "known_findings.json")
	fReplays  = flag.String("replays", "", "directory for replay artefacts")
	fBudget   = flag.Duration("budget", 0, "wall-clock budget")
	fReplay   = flag.String("replay", "", "replay one recorded case")
	fWorkers  = flag.Int("workers", 16, "parallel workers")
	fScratch  = flag.String("scratch", "", "scratch directory (removed by the caller)")
)

// Start parses the common flags.
func Start(prop string) *Run {
	if !flag.Parsed() {
		flag.Parse()
	}
	r := &Run{Prop: prop, Tier: *fTier, Evidence: *fEvidence, KnownF: *fKnown, Replays: *fReplays,
		Budget: *fBudget, ReplayIn: *fReplay, Workers: *fWorkers, Scratch: *fScratch,
		start: time.Now(), viol: map[string]*Violation{}, Extra: map[string]any{}}
	if s := os.Getenv("VERIF_SEED"); s != "" {
		r.Seed, _ = strconv.Atoi(s)
	}
	if r.Tier != "quick" && r.Tier != "thorough" {
		Fatalf("bad tier %q", r.Tier)
	}
	if r.KnownF != "" {
		b, err := os.ReadFile(r.KnownF)
		if err != nil {
			Fatalf("reading known findings: %v", err)
		}
		if err := json.Unmarshal(b, &r.known); err != nil {
			Fatalf("parsing known findings: %v", err)
		}
	}
	return r
}

// Fatalf reports a harness error (exit 2): never a verdict.
func Fatalf(format string, a ...any) {
	fmt.Fprintf(os.Stderr, "HARNESS-ERROR: "+format+"\n", a...)
	os.Exit(2)
}

func (r *Run) Thorough() bool { return r.Tier == "thorough" }

// Deadline returns the instant after which explorations should stop (and say so).
func (r *Run) Deadline() time.Time {
	if r.Budget == 0 {
		return time.Time{}
	}
	return r.start.Add(r.Budget)
}

func (r *Run) Expired() bool {
	return r.Budget != 0 && time.Since(r.start) > r.Budget
}

// Cap records that a cap was hit (the run is then not exhaustive for that part).
func (r *Run) Cap(what string) {
	r.mu.Lock()
	r.caps = append(r.caps, what)
	r.mu.Unlock()
}

// Sample records an actual explored case for the evidence file (keeps the first few).
func (r *Run) Sample(s any) {
	r.mu.Lock()
	if len(r.samples) < 8 {
		r.samples = append(r.samples, s)
	}
	r.mu.Unlock()
}

// Violation records a failing case. Only the first replay per signature is kept.
func (r *Run) Violation(sig, what string, replay any) {
	r.mu.Lock()
	defer r.mu.Unlock()
	v, ok := r.viol[sig]
	if !ok {
		v = &Violation{Signature: sig, What: what, Replay: replay}
		r.viol[sig] = v
		r.order = append(r.order, sig)
	}
	v.Count++
}

func (r *Run) NumViolations() int {
	r.mu.Lock()
	defer r.mu.Unlock()
	return len(r.viol)
}

func (r *Run) isKnownOpen(sig string) *Known {
	for i := range r.known {
		k := &r.known[i]
		if k.Property == r.Prop && k.Status == "open" && k.Signature == sig {
			return k
		}
	}
	return nil
}

// Coverage is what Finish writes under "coverage".
type Coverage struct {
	Evaluations        int64
	DistinctNontrivial int64
	Rule               string
	States             int64
	Transitions        int64
	TracesValidated    int64
	Exhaustive         bool
	Outcomes           int64 // distinct observed outcomes
	Bounds             map[string]any
}

func sanitize(s string) string {
	var b strings.Builder
	for _, c := range s {
		switch {
		case c >= 'a' && c <= 'z', c >= 'A' && c <= 'Z', c >= '0' && c <= '9', c == '-', c == '_', c == '.':
			b.WriteRune(c)
		default:
			b.WriteByte('_')
		}
	}
	if b.Len() > 80 {
		return b.String()[:80]
	}
	return b.String()
}

// Finish writes the evidence file, prints the verdict lines and exits.
func (r *Run) Finish(c Coverage) {
	wall := time.Since(r.start).Seconds()
	unknown := 0
	sort.Strings(r.order)
	var lines []string
	for _, sig := range r.order {
		v := r.viol[sig]
		if k := r.isKnownOpen(sig); k != nil {
			lines = append(lines, fmt.Sprintf("KNOWN-FINDING: property=%s %s [%s] (%d cases; e.g. %s)", r.Prop, k.What, sig, v.Count, v.What))
			continue
		}
		unknown++
		path := "-"
		if r.Replays != "" {
			os.MkdirAll(r.Replays, 0o755)
			path = filepath.Join(r.Replays, sanitize(sig)+".json")
			b, _ := json.MarshalIndent(map[string]any{"property": r.Prop, "signature": sig, "what": v.What, "count": v.Count, "tier": r.Tier, "replay": v.Replay}, "", " ")
			if err := os.WriteFile(path, b, 0o644); err != nil {
				Fatalf("writing replay: %v", err)
			}
		}
		lines = append(lines, fmt.Sprintf("VIOLATION property=%s replay=%s", r.Prop, path))
		lines = append(lines, fmt.Sprintf("  signature=%s cases=%d: %s", sig, v.Count, v.What))
	}
	if len(r.caps) > 0 {
		c.Exhaustive = false
	}
	if r.Evidence != "" {
		cov := map[string]any{
			"evaluations":                   c.Evaluations,
			"distinct_nontrivial":           c.DistinctNontrivial,
			"rule":                          c.Rule,
			"samples":                       r.samples,
			"states":                        c.States,
			"transitions":                   c.Transitions,
			"traces_validated_against_impl": c.TracesValidated,
			"exhaustive":                    c.Exhaustive,
			"distinct_outcomes":             c.Outcomes,
			"bounds":                        c.Bounds,
			"caps_hit":                      r.caps,
		}
		if len(r.samples) == 0 {
			cov["samples"] = []any{"(none recorded)"}
		}
		for k, v := range r.Extra {
			cov[k] = v
		}
		sigs := []map[string]any{}
		for _, sig := range r.order {
			v := r.viol[sig]
			sigs = append(sigs, map[string]any{"signature": sig, "cases": v.Count, "known_open": r.isKnownOpen(sig) != nil, "example": v.What})
		}
		cov["violation_signatures"] = sigs
		ev := map[string]any{
			"property_id": r.Prop,
			"tier":        r.Tier,
			"seed":        r.Seed,
			"level":       "model_checking",
			"coverage":    cov,
			"assumptions": r.Assumptions,
			"wall_s":      wall,
			"violations":  unknown,
		}
		b, _ := json.MarshalIndent(ev, "", " ")
		os.MkdirAll(filepath.Dir(r.Evidence), 0o755)
		if err := os.WriteFile(r.Evidence, append(b, '\n'), 0o644); err != nil {
			Fatalf("writing evidence: %v", err)
		}
	}
	for _, l := range lines {
		fmt.Println(l)
	}
	fmt.Printf("%s %s: evaluations=%d distinct_nontrivial=%d states=%d transitions=%d outcomes=%d exhaustive=%v caps=%v wall=%.1fs violations=%d\n",
		r.Prop, r.Tier, c.Evaluations, c.DistinctNontrivial, c.States, c.Transitions, c.Outcomes, c.Exhaustive, r.caps, wall, unknown)
	if unknown > 0 {
		os.Exit(1)
	}
	os.Exit(0)
}

// Parallel runs f(i) for i in [0,n) on r.Workers goroutines.
func (r *Run) Parallel(n int, f func(i int)) {
	w := r.Workers
	if w < 1 {
		w = 1
	}
	var wg sync.WaitGroup
	ch := make(chan int)
	for k := 0; k < w; k++ {
		wg.Add(1)
		go func() {
			defer wg.Done()
			for i := range ch {
				f(i)
			}
		}()
	}
	for i := 0; i < n; i++ {
		ch <- i
	}
	close(ch)
	wg.Wait()
}
