// C12 — Labels are canonical, stable identities confined to the project.
//
// (a) Bounded-exhaustive enumeration of every string over the label alphabet: Parse must not
//
//	panic; every accepted label that has a name or has no kind must survive print → parse
//	unchanged, must not share its printed form with a different label (one global table of
//	printed form → label over the whole enumeration), and the same must hold for the label
//	resolved against a package with RelativeTo.
//
// (b) Bounded-exhaustive enumeration of every (package, path): repoSourcePath / sourceLabel
//
//	(the code path of sources= and of generates= in target(), and of label()) against a
//	component-stack reference resolver: whatever is accepted must land inside the project
//	root, at the location the reference computes; whatever escapes must be rejected.
package main

import (
	"encoding/json"
	"fmt"
	"os"
	"path/filepath"
	"strings"
	"sync"

	dawn "github.com/pgavlin/dawn"
	"github.com/pgavlin/dawn/internal/verif/vlib"
	"github.com/pgavlin/dawn/label"
	"go.starlark.net/starlark"
)

const (
	labelAlpha = "ab:/.@ "
	pathAlpha  = "a/.: "
	fakeRoot   = "/R" // stands for the project root when locations are compared
)

var pkgs = []string{"//", "//a", "//a/b",
	// other spellings of the same packages (what a command line or a REPL hands over): the result
	// must be an error or the label resolved against the canonical spelling
	"//a/", "//a//b", "///a", "//a/b/", "//a/./b", "//a/../b"}

// canonPkg gives the canonical spelling of the packages above whose only irregularity is a
// repeated or trailing separator ("" where the spelling has "." or ".." elements: no claim).
var canonPkg = map[string]string{"//a/": "//a", "//a//b": "//a/b", "///a": "//a", "//a/b/": "//a/b"}

// ---- label helpers ----------------------------------------------------------------------------

func eq(a, b *label.Label) bool {
	return a.Kind == b.Kind && a.Project == b.Project && a.Package == b.Package && a.Name == b.Name
}

// inScope: the property exempts labels that have a kind but no name (not spellable).
func inScope(l *label.Label) bool { return l.Name != "" || l.Kind == "" }

func show(l *label.Label) map[string]string {
	if l == nil {
		return nil
	}
	return map[string]string{"kind": l.Kind, "project": l.Project, "package": l.Package, "name": l.Name}
}

func safeParse(s string) (l *label.Label, err error, pv any) {
	defer func() { pv = recover() }()
	l, err = label.Parse(s)
	return
}

func safeString(l *label.Label) (s string, pv any) {
	defer func() { pv = recover() }()
	s = l.String()
	return
}

func safeRelativeTo(l *label.Label, pkg string) (rl *label.Label, err error, pv any) {
	defer func() { pv = recover() }()
	rl, err = l.RelativeTo(pkg)
	return
}

func safeRepoSourcePath(pkg, p string) (s string, err error, pv any) {
	defer func() { pv = recover() }()
	s, err = dawn.VerifRepoSourcePath(pkg, p)
	return
}

func safeSourceLabel(pkg, p string) (l *label.Label, err error, pv any) {
	defer func() { pv = recover() }()
	l, err = dawn.VerifSourceLabel(pkg, p)
	return
}

// ---- global tables (sharded) ---------------------------------------------------------------

const nShards = 256

type printed struct {
	l      label.Label
	origin string
}

type shard struct {
	mu      sync.Mutex
	byPrint map[string]printed
	labels  map[label.Label]struct{}
}

var shards [nShards]shard

func init() {
	for i := range shards {
		shards[i].byPrint = map[string]printed{}
		shards[i].labels = map[label.Label]struct{}{}
	}
}

func fnv(parts ...string) uint32 {
	h := uint32(2166136261)
	for _, s := range parts {
		for i := 0; i < len(s); i++ {
			h ^= uint32(s[i])
			h *= 16777619
		}
		h ^= 0xff
		h *= 16777619
	}
	return h
}

// noteLabel adds l to the set of distinct accepted labels.
func noteLabel(l *label.Label) {
	sh := &shards[fnv(l.Kind, l.Project, l.Package, l.Name)%nShards]
	sh.mu.Lock()
	sh.labels[*l] = struct{}{}
	sh.mu.Unlock()
}

func numLabels() (n int64) {
	for i := range shards {
		n += int64(len(shards[i].labels))
	}
	return
}

func numPrints() (n int64) {
	for i := range shards {
		n += int64(len(shards[i].byPrint))
	}
	return
}

// ---- per-goroutine accumulation ---------------------------------------------------------------

type local struct {
	counters map[string]int64
	outcomes map[string]struct{}
}

func newLocal() *local { return &local{map[string]int64{}, map[string]struct{}{}} }

func (lc *local) add(name string, n int64) { lc.counters[name] += n }
func (lc *local) outcome(o string)         { lc.outcomes[o] = struct{}{}; lc.counters["class:"+o]++ }
func (lc *local) flush(r *vlib.Run) {
	for k, v := range lc.counters {
		r.Add(k, v)
	}
	for o := range lc.outcomes {
		r.Outcome("classes", o)
	}
}

// ---- part (a): labels -----------------------------------------------------------------------------

type labelReplay struct {
	Part     string            `json:"part"`
	Input    string            `json:"input"`
	Pkg      string            `json:"pkg,omitempty"`
	Path     string            `json:"path,omitempty"`
	Label    map[string]string `json:"label,omitempty"`
	Printed  string            `json:"printed,omitempty"`
	Reparsed map[string]string `json:"reparsed,omitempty"`
	Other    map[string]string `json:"other_label,omitempty"`
	OtherIn  string            `json:"other_origin,omitempty"`
	Detail   string            `json:"detail,omitempty"`
}

// checkLabel: (1) print → parse is the identity on l, (2) nobody else prints like l.
func checkLabel(r *vlib.Run, l *label.Label, rp labelReplay, lc *local) {
	rp.Label = show(l)
	p, pv := safeString(l)
	if pv != nil {
		rp.Detail = fmt.Sprint(pv)
		r.Violation("C12:print-panic", fmt.Sprintf("String() of %+v (from %q) panicked: %v", *l, rp.Input, pv), rp)
		return
	}
	rp.Printed = p
	lc.add("reparse_calls", 1)
	l2, err, pv := safeParse(p)
	switch {
	case pv != nil:
		rp.Detail = fmt.Sprint(pv)
		r.Violation("C12:parse-panic", fmt.Sprintf("Parse(%q) panicked: %v", p, pv), rp)
		return
	case err != nil || l2 == nil:
		rp.Detail = fmt.Sprint(err)
		r.Violation("C12:print-parse-mismatch", fmt.Sprintf("%+v (from %q) prints as %q, which does not parse: %v", *l, rp.Input, p, err), rp)
	case !eq(l, l2):
		rp.Reparsed = show(l2)
		r.Violation("C12:print-parse-mismatch", fmt.Sprintf("%+v (from %q) prints as %q, which parses as %+v", *l, rp.Input, p, *l2), rp)
	}
	sh := &shards[fnv(p)%nShards]
	sh.mu.Lock()
	prev, ok := sh.byPrint[p]
	if !ok {
		sh.byPrint[p] = printed{*l, rp.Input}
	}
	sh.mu.Unlock()
	if ok && !eq(&prev.l, l) {
		rp.Other, rp.OtherIn = show(&prev.l), prev.origin
		r.Violation("C12:print-collision", fmt.Sprintf("different labels %+v (from %q) and %+v (from %q) both print as %q", *l, rp.Input, prev.l, prev.origin, p), rp)
	}
}

func labelClass(l *label.Label) string {
	b := func(v bool, s string) string {
		if v {
			return "+" + s
		}
		return "-" + s
	}
	pk := "nopkg"
	switch {
	case l.IsAbs():
		pk = "abspkg"
	case l.Package != "":
		pk = "relpkg"
	}
	return b(l.Kind != "", "kind") + b(l.Project != "", "project") + "," + pk + b(l.Name != "", "name")
}

func checkString(r *vlib.Run, s string, lc *local) {
	lc.add("parse_calls", 1)
	l, err, pv := safeParse(s)
	if pv != nil {
		r.Violation("C12:parse-panic", fmt.Sprintf("Parse(%q) panicked: %v", s, pv), labelReplay{Part: "label", Input: s, Detail: fmt.Sprint(pv)})
		return
	}
	if err != nil {
		lc.outcome("parse rejected: " + err.Error())
		return
	}
	if l == nil {
		r.Violation("C12:parse-nil-label", fmt.Sprintf("Parse(%q) returned neither a label nor an error", s), labelReplay{Part: "label", Input: s})
		return
	}
	lc.add("parse_accepted", 1)
	noteLabel(l)
	scope := inScope(l)
	if scope {
		lc.add("labels_in_scope", 1)
		lc.outcome("parse accepted: " + labelClass(l))
		checkLabel(r, l, labelReplay{Part: "label", Input: s}, lc)
	} else {
		lc.outcome("parse accepted (kind without name, exempt): " + labelClass(l))
	}
	for _, pkg := range pkgs {
		lc.add("relativeto_calls", 1)
		rl, err, pv := safeRelativeTo(l, pkg)
		if pv != nil {
			r.Violation("C12:relativeto-panic", fmt.Sprintf("Parse(%q).RelativeTo(%q) panicked: %v", s, pkg, pv), labelReplay{Part: "label", Input: s, Pkg: pkg, Label: show(l), Detail: fmt.Sprint(pv)})
			continue
		}
		if err != nil {
			lc.outcome("RelativeTo rejected: " + err.Error())
			continue
		}
		if rl == nil {
			r.Violation("C12:parse-nil-label", fmt.Sprintf("Parse(%q).RelativeTo(%q) returned neither a label nor an error", s, pkg), labelReplay{Part: "label", Input: s, Pkg: pkg})
			continue
		}
		noteLabel(rl)
		switch {
		case eq(rl, l):
			lc.outcome("RelativeTo: unchanged, " + labelClass(rl))
		default:
			lc.add("relativeto_changed", 1)
			lc.outcome("RelativeTo: resolved, " + labelClass(l) + " -> " + labelClass(rl))
		}
		if scope && inScope(rl) {
			checkLabel(r, rl, labelReplay{Part: "label", Input: s, Pkg: pkg}, lc)
		}
		if c := canonPkg[pkg]; c != "" {
			if rc, cerr, cpv := safeRelativeTo(l, c); cpv == nil && cerr == nil && rc != nil && !eq(rc, rl) {
				r.Violation("C12:relativeto-depends-on-package-spelling", fmt.Sprintf("Parse(%q).RelativeTo(%q) = %s but RelativeTo(%q) = %s", s, pkg, show(rl), c, show(rc)), labelReplay{Part: "label", Input: s, Pkg: pkg, Label: show(rl)})
			}
		}
	}
}

// ---- part (b): paths ---------------------------------------------------------------------------------

type refResult struct {
	comps   []string // components below the project root
	escapes bool     // a relative path climbed above the project root
	clamped bool     // an absolute path had ".." at the root (POSIX: "/.." is "/")
}

// resolveRef: the boring reference. Absolute paths are relative to the project root, all
// others to the package directory; "" and "." are ignored; ".." pops.
func resolveRef(pkg, p string) refResult {
	var res refResult
	abs := strings.HasPrefix(p, "/")
	if !abs {
		for _, c := range strings.Split(pkg[2:], "/") {
			if c != "" {
				res.comps = append(res.comps, c)
			}
		}
	}
	for _, c := range strings.Split(p, "/") {
		switch c {
		case "", ".":
		case "..":
			switch {
			case len(res.comps) > 0:
				res.comps = res.comps[:len(res.comps)-1]
			case abs:
				res.clamped = true
			default:
				res.escapes = true
				return res
			}
		default:
			res.comps = append(res.comps, c)
		}
	}
	return res
}

func refLocation(res refResult) string {
	return filepath.Join(append([]string{fakeRoot}, res.comps...)...)
}

func inside(loc string) bool { return loc == fakeRoot || strings.HasPrefix(loc, fakeRoot+"/") }

// generatedLocation is what target() does with the result of repoSourcePath for generates=.
func generatedLocation(p string) string {
	components := strings.Split(p, "/")
	return filepath.Join(fakeRoot, filepath.Join(components...))
}

// sourceLocation is what loadSourceFile / path() do with a label.
func sourceLocation(l *label.Label) (loc string, pv any) {
	defer func() { pv = recover() }()
	components := label.Split(l.Package)[1:]
	return filepath.Join(fakeRoot, filepath.Join(components...), l.Name), nil
}

type pathReplay struct {
	Part     string            `json:"part"`
	Pkg      string            `json:"pkg"`
	Path     string            `json:"path"`
	Func     string            `json:"func"`
	Returned string            `json:"returned,omitempty"`
	Label    map[string]string `json:"label,omitempty"`
	Location string            `json:"location_under_root_R,omitempty"`
	RefLoc   string            `json:"reference_location,omitempty"`
	Escapes  bool              `json:"reference_escapes"`
	Detail   string            `json:"detail,omitempty"`
}

func checkPath(r *vlib.Run, pkg, p string, lc *local) {
	ref := resolveRef(pkg, p)
	want := refLocation(ref)
	lc.add("path_resolutions", 2)
	kind := "relative"
	if strings.HasPrefix(p, "/") {
		kind = "absolute"
	}
	if ref.clamped {
		kind = "absolute with .. at the root"
	}

	// repoSourcePath (sources=, generates=)
	got, err, pv := safeRepoSourcePath(pkg, p)
	rp := pathReplay{Part: "path", Pkg: pkg, Path: p, Func: "repoSourcePath", Escapes: ref.escapes, RefLoc: want}
	switch {
	case pv != nil:
		rp.Detail = fmt.Sprint(pv)
		r.Violation("C12:path-panic", fmt.Sprintf("repoSourcePath(%q, %q) panicked: %v", pkg, p, pv), rp)
	case err == nil:
		rp.Returned = got
		loc := generatedLocation(got)
		rp.Location = loc
		switch {
		case ref.escapes:
			r.Violation("C12:escape-accepted", fmt.Sprintf("repoSourcePath(%q, %q) = %q accepted, but the path climbs out of the project root", pkg, p, got), rp)
		case got == ".." || strings.HasPrefix(got, "../") || !inside(loc):
			r.Violation("C12:escape-accepted", fmt.Sprintf("repoSourcePath(%q, %q) = %q, which is %s for root %s: outside the project root", pkg, p, got, loc, fakeRoot), rp)
		case loc != want:
			r.Violation("C12:path-resolves-elsewhere", fmt.Sprintf("repoSourcePath(%q, %q) = %q, i.e. %s, but the path denotes %s", pkg, p, got, loc, want), rp)
		default:
			lc.add("paths_accepted", 1)
			if ref.clamped {
				lc.add("abs_dotdot_clamped_to_root", 1)
			}
			if len(ref.comps) == 0 {
				lc.add("paths_accepted_root_itself", 1)
			}
			if got != "." && "/"+strings.TrimPrefix(got, "/") != "/"+strings.Join(ref.comps, "/") {
				lc.add("returned_path_not_in_reference_form", 1)
			}
			lc.outcome("path accepted: " + kind)
		}
	default:
		switch {
		case ref.escapes:
			lc.add("escapes_rejected", 1)
			lc.outcome("path rejected, escapes: " + kind)
		case p == "":
			lc.outcome("path rejected: empty")
		default:
			// Not demanded by the property (it only says what must be rejected); counted.
			lc.add("rejected_inside:repoSourcePath", 1)
			lc.outcome("path rejected although inside: " + kind)
		}
	}

	// sourceLabel (sources=, label())
	l, lerr, pv := safeSourceLabel(pkg, p)
	rp = pathReplay{Part: "path", Pkg: pkg, Path: p, Func: "sourceLabel", Escapes: ref.escapes, RefLoc: want}
	switch {
	case pv != nil:
		rp.Detail = fmt.Sprint(pv)
		r.Violation("C12:path-panic", fmt.Sprintf("sourceLabel(%q, %q) panicked: %v", pkg, p, pv), rp)
	case lerr == nil && l == nil:
		r.Violation("C12:parse-nil-label", fmt.Sprintf("sourceLabel(%q, %q) returned neither a label nor an error", pkg, p), rp)
	case lerr == nil:
		rp.Label = show(l)
		loc, lpv := sourceLocation(l)
		rp.Location = loc
		switch {
		case ref.escapes:
			r.Violation("C12:escape-accepted", fmt.Sprintf("sourceLabel(%q, %q) = %+v accepted, but the path climbs out of the project root", pkg, p, *l), rp)
		case lpv != nil:
			rp.Detail = fmt.Sprint(lpv)
			r.Violation("C12:path-resolves-elsewhere", fmt.Sprintf("sourceLabel(%q, %q) = %+v has no location (package is not absolute): %v", pkg, p, *l, lpv), rp)
		case !inside(loc):
			r.Violation("C12:escape-accepted", fmt.Sprintf("sourceLabel(%q, %q) = %+v, which is %s for root %s: outside the project root", pkg, p, *l, loc, fakeRoot), rp)
		case loc != want:
			r.Violation("C12:path-resolves-elsewhere", fmt.Sprintf("sourceLabel(%q, %q) = %+v, i.e. %s, but the path denotes %s", pkg, p, *l, loc, want), rp)
		default:
			lc.add("source_labels_accepted", 1)
			noteLabel(l)
			if inScope(l) {
				lc.outcome("source label accepted: " + kind + ", " + labelClass(l))
				checkLabel(r, l, labelReplay{Part: "path", Input: "sourceLabel(" + pkg + ", " + p + ")", Pkg: pkg, Path: p}, lc)
			} else {
				lc.add("source_labels_without_name", 1)
				lc.outcome("source label accepted (kind without name, exempt): " + kind + ", " + labelClass(l))
			}
		}
	case err == nil:
		// the path itself was fine, the label constructor refused it
		lc.add("rejected_inside:sourceLabel", 1)
		lc.outcome("source label rejected although inside: " + lerr.Error())
	}
}

// ---- enumeration ---------------------------------------------------------------------------------------

// unitStrings calls f for every string of unit u: unit 0 holds all strings shorter than
// plen; unit k>0 holds the k-th plen-letter prefix and all its extensions up to maxLen.
func unitStrings(alpha string, plen, maxLen, u int, f func(s string)) {
	n := len(alpha)
	if u == 0 {
		var rec func(buf []byte)
		rec = func(buf []byte) {
			f(string(buf))
			if len(buf) == plen-1 || len(buf) == maxLen {
				return
			}
			for i := 0; i < n; i++ {
				rec(append(buf, alpha[i]))
			}
		}
		rec(make([]byte, 0, plen))
		return
	}
	if maxLen < plen {
		return
	}
	buf := make([]byte, plen, maxLen)
	k := u - 1
	for i := plen - 1; i >= 0; i-- {
		buf[i] = alpha[k%n]
		k /= n
	}
	var rec func()
	rec = func() {
		f(string(buf))
		if len(buf) == maxLen {
			return
		}
		for i := 0; i < n; i++ {
			buf = append(buf, alpha[i])
			rec()
			buf = buf[:len(buf)-1]
		}
	}
	rec()
}

func numUnits(alpha string, plen int) int {
	n := 1
	for i := 0; i < plen; i++ {
		n *= len(alpha)
	}
	return n + 1
}

func pow(b, e int) int64 {
	x := int64(1)
	for ; e > 0; e-- {
		x *= int64(b)
	}
	return x
}

func totalStrings(alpha string, maxLen int) (t int64) {
	for k := 0; k <= maxLen; k++ {
		t += pow(len(alpha), k)
	}
	return
}

func replayOne(r *vlib.Run) {
	b, err := os.ReadFile(r.ReplayIn)
	if err != nil {
		vlib.Fatalf("replay: %v", err)
	}
	var f struct {
		Replay struct {
			Part  string `json:"part"`
			Input string `json:"input"`
			Pkg   string `json:"pkg"`
			Path  string `json:"path"`
		} `json:"replay"`
	}
	if err := json.Unmarshal(b, &f); err != nil {
		vlib.Fatalf("replay: %v", err)
	}
	lc := newLocal()
	switch f.Replay.Part {
	case "label":
		// the colliding partner of a print-collision must be in the table too
		var g struct {
			Replay struct {
				Other string `json:"other_origin"`
			} `json:"replay"`
		}
		json.Unmarshal(b, &g)
		if g.Replay.Other != "" {
			checkString(r, g.Replay.Other, lc)
		}
		checkString(r, f.Replay.Input, lc)
	case "path":
		checkPath(r, f.Replay.Pkg, f.Replay.Path, lc)
	default:
		vlib.Fatalf("replay: unknown part %q", f.Replay.Part)
	}
	lc.flush(r)
	r.Evidence = ""
	r.Finish(vlib.Coverage{Evaluations: 1, Rule: "replay of one recorded case"})
}

func main() {
	r := vlib.Start("C12")
	if r.ReplayIn != "" {
		replayOne(r)
	}
	// Escaping from //a/b with a relative path takes "../../.." (8 letters), so the path
	// bound is 8 already in the quick tier; it costs well under a second.
	maxLabel, maxPath := 7, 8
	if r.Thorough() {
		maxLabel, maxPath = 8, 10
	}
	const plen = 3

	// (a) labels
	r.Parallel(numUnits(labelAlpha, plen), func(u int) {
		if r.Expired() {
			r.Cap("wall-clock budget (labels)")
			return
		}
		lc := newLocal()
		unitStrings(labelAlpha, plen, maxLabel, u, func(s string) { checkString(r, s, lc) })
		lc.flush(r)
	})
	r.Extra["distinct_labels_from_strings"] = numLabels()

	// (b) paths
	r.Parallel(numUnits(pathAlpha, plen), func(u int) {
		if r.Expired() {
			r.Cap("wall-clock budget (paths)")
			return
		}
		lc := newLocal()
		unitStrings(pathAlpha, plen, maxPath, u, func(p string) {
			for _, pkg := range pkgs[:3] {
				checkPath(r, pkg, p, lc)
			}
		})
		lc.flush(r)
	})

	// (c) record paths: the labels a project can hold (no project part, absolute package; targets
	// and sources) must map to pairwise distinct record files, each directly inside its kind's
	// directory under the build-state directory.
	recordPaths(r)
	directoryNames(r)
	declaredOutputs(r)

	wantParse := totalStrings(labelAlpha, maxLabel)
	wantPaths := totalStrings(pathAlpha, maxPath) * int64(3) * 2
	if !r.Expired() && (r.Get("parse_calls") != wantParse || r.Get("path_resolutions") != wantPaths) {
		vlib.Fatalf("enumeration incomplete: %d/%d strings, %d/%d path resolutions", r.Get("parse_calls"), wantParse, r.Get("path_resolutions"), wantPaths)
	}

	for _, s := range []string{"a:b//a:b", ":a", "a::"} {
		l, err, _ := safeParse(s)
		r.Sample(map[string]any{"parse": s, "label": show(l), "error": fmt.Sprint(err)})
	}
	for _, c := range [][2]string{{"//a/b", "../../.."}, {"//a", "/../a"}, {"//a/b", "..//./a"}} {
		got, err, _ := safeRepoSourcePath(c[0], c[1])
		l, lerr, _ := safeSourceLabel(c[0], c[1])
		r.Sample(map[string]any{"pkg": c[0], "path": c[1], "repoSourcePath": got, "error": fmt.Sprint(err), "sourceLabel": show(l), "label_error": fmt.Sprint(lerr)})
	}

	r.Extra["distinct_labels"] = numLabels()
	r.Extra["distinct_printed_forms"] = numPrints()
	r.Extra["outcome_classes"] = r.Outcomes("classes")
	r.Assumptions = []string{
		"label alphabet {a b : / . @}: two ordinary letters, both separators, the dot (so '.', '..' and '...' elements occur) and one other punctuation; kinds, projects, packages and names are all spelled from it",
		"labels with a kind and no name are exempt from print/parse/canonicity, as the property says; Parse and RelativeTo must still not panic on them",
		"packages to resolve against: //, //a, //a/b (valid absolute package paths, as module labels always are)",
		"generated-file paths (generates=) go through the same repoSourcePath as source paths; their location is computed the way target() does (split on '/', join under the root)",
		"the location of a source label is computed the way loadSourceFile/path() do (label.Split(Package)[1:] + Name joined under the root); the root is the stand-in " + fakeRoot + " and 'inside' is lexical, the root itself counts as inside",
		"an absolute path with '..' at the root (\"/../a\") is read like the OS reads it (\"/..\" is \"/\"): it stays inside, so accepting it is not a violation; such cases are counted (abs_dotdot_clamped_to_root)",
		"the property says what must be rejected, not what must be accepted: rejections of paths that stay inside (empty path, ':' in a directory or file name, which no label can spell) are counted, not failed",
		"record paths: every accepted label with kind \"\" or \"source\", no project part and an absolute package is mapped through the real targetInfoPath of a loaded Project; distinct labels must give distinct files, each a direct child of .dawn/build/<kind>s",
	}
	r.Finish(vlib.Coverage{
		Evaluations:        r.Get("parse_calls") + r.Get("path_resolutions"),
		DistinctNontrivial: numLabels() + r.Get("paths_accepted"),
		Rule: fmt.Sprintf("every string of length <=%d over {a b : / . @} through Parse, accepted ones printed, re-parsed, entered in one global print table and resolved against //, //a, //a/b; every path of length <=%d over {a / . :} (including the empty path) x 3 packages through repoSourcePath and sourceLabel; non-trivial = distinct accepted labels + accepted (package, path) pairs",
			maxLabel, maxPath),
		States:      numLabels(),
		Transitions: r.Get("parse_calls") + r.Get("path_resolutions"),
		Exhaustive:  true,
		Outcomes:    r.NumOutcomes("classes"),
		Bounds:      map[string]any{"label_len": maxLabel, "label_alphabet": labelAlpha, "path_len": maxPath, "path_alphabet": pathAlpha, "packages": pkgs},
	})
}

// recordPaths checks the injectivity and confinement of targetInfoPath over all accepted labels
// collected in the global table.
func recordPaths(r *vlib.Run) {
	root := filepath.Join(r.Scratch, "recproj")
	os.MkdirAll(root, 0o755)
	if err := os.WriteFile(filepath.Join(root, "dawn.toml"), []byte("name = \"p\"\n"), 0o644); err != nil {
		vlib.Fatalf("%v", err)
	}
	proj, err := dawn.Load(root, nil)
	if err != nil {
		vlib.Fatalf("record-path project does not load: %v", err)
	}
	work := filepath.Join(root, ".dawn", "build")
	byPath := map[string]label.Label{}
	n := 0
	for i := range shards {
		for l := range shards[i].labels {
			l := l
			if (l.Kind != "" && l.Kind != "source") || l.Project != "" || !strings.HasPrefix(l.Package, "//") || l.Name == "" {
				continue
			}
			var p string
			func() {
				defer func() {
					if x := recover(); x != nil {
						r.Violation("C12:record-path-panic", fmt.Sprintf("targetInfoPath(%+v) panicked: %v", l, x), map[string]any{"label": show(&l)})
					}
				}()
				p = dawn.VerifTargetInfoPath(proj, &l)
			}()
			if p == "" {
				continue
			}
			n++
			kind := l.Kind
			if kind == "" {
				kind = "target"
			}
			dir := filepath.Join(work, kind+"s")
			if filepath.Dir(p) != dir || filepath.Base(p) == "." || filepath.Base(p) == ".." {
				r.Violation("C12:record-path-outside-kind-directory", fmt.Sprintf("the record of %s is %s, not a file directly inside %s", show(&l), p, dir), map[string]any{"label": show(&l), "path": p})
				continue
			}
			if prev, ok := byPath[p]; ok && prev != l {
				r.Violation("C12:record-path-collision", fmt.Sprintf("different labels %s and %s share the record file %s", show(&prev), show(&l), p), map[string]any{"a": show(&prev), "b": show(&l), "path": p})
				continue
			}
			byPath[p] = l
		}
	}
	r.Add("record_paths", int64(n))
	r.Extra["record_paths_checked"] = n
}

// directoryNames: the loader turns the names of the project's directories into package labels.
// Every directory name of <=3 characters over {a, :, ., @, space, -} (and some longer ones),
// with a BUILD.dawn inside and one level further down, must not crash Load: the outcome is a
// loaded project or an error.
func directoryNames(r *vlib.Run) {
	names := []string{"notes:2024", "a:b:c", "..."}
	al := []string{"a", ":", ".", "@", " ", "-"}
	cur := []string{""}
	for n := 0; n < 3; n++ {
		var next []string
		for _, p := range cur {
			for _, c := range al {
				next = append(next, p+c)
			}
		}
		names = append(names, next...)
		cur = next
	}
	var mu sync.Mutex
	r.Parallel(len(names), func(i int) {
		name := names[i]
		if name == "." || name == ".." || strings.ContainsRune(name, '/') {
			return
		}
		root, err := os.MkdirTemp(r.Scratch, "dirname")
		if err != nil {
			vlib.Fatalf("%v", err)
		}
		defer os.RemoveAll(root)
		os.WriteFile(filepath.Join(root, "dawn.toml"), []byte("name = \"p\"\n"), 0o644)
		os.WriteFile(filepath.Join(root, "BUILD.dawn"), []byte("x = 1\n"), 0o644)
		for _, d := range []string{name, filepath.Join(name, "sub"), filepath.Join("ok", name)} {
			if err := os.MkdirAll(filepath.Join(root, d), 0o755); err != nil {
				return // the file system refuses the name
			}
			os.WriteFile(filepath.Join(root, d, "BUILD.dawn"), []byte("y = 2\n"), 0o644)
		}
		var pv any
		func() {
			defer func() { pv = recover() }()
			dawn.Load(root, &dawn.LoadOptions{})
		}()
		mu.Lock()
		r.Add("directory_names_loaded", 1)
		mu.Unlock()
		if pv != nil {
			r.Violation("C12:load-panic-on-directory-name", fmt.Sprintf("Load of a project with a directory named %q panicked: %v", name, pv), map[string]any{"directory": name, "panic": fmt.Sprint(pv)})
		}
	})
}

// declaredOutputs: generates= entries through the real target() builtin of a project whose root
// directory is named "proj" and has siblings whose names extend it ("proj-out", "proj.cache",
// "project2"). Whatever is accepted must lie inside the root, component-wise.
func declaredOutputs(r *vlib.Run) {
	base, err := os.MkdirTemp(r.Scratch, "gens")
	if err != nil {
		vlib.Fatalf("%v", err)
	}
	defer os.RemoveAll(base)
	root := filepath.Join(base, "proj")
	for _, d := range []string{"proj/sub", "proj-out", "proj.cache", "project2", "other"} {
		os.MkdirAll(filepath.Join(base, d), 0o755)
	}
	os.WriteFile(filepath.Join(root, "dawn.toml"), []byte("name = \"p\"\n"), 0o644)
	prefixes := []string{"", "../", "../../", "/", "/../", "sub/../../", "./../", "a/../../", "..//"}
	tails := []string{"gen.txt", "proj-out/gen.txt", "proj.cache/x", "project2/x", "proj/x", "other/x", "proj-out", "sub/gen.txt", "proj/../proj-out/g"}
	for _, pkg := range []string{"", "sub"} {
		for _, pre := range prefixes {
			for _, tail := range tails {
				entry := pre + tail
				os.Remove(filepath.Join(root, "BUILD.dawn"))
				os.Remove(filepath.Join(root, "sub", "BUILD.dawn"))
				os.RemoveAll(filepath.Join(root, ".dawn"))
				os.WriteFile(filepath.Join(root, pkg, "BUILD.dawn"), []byte(fmt.Sprintf("def _t(t):\n    pass\ntarget(name=\"t\", function=_t, generates=[%q])\n", entry)), 0o644)
				var pv any
				var proj *dawn.Project
				var lerr error
				func() {
					defer func() { pv = recover() }()
					proj, lerr = dawn.Load(root, &dawn.LoadOptions{})
				}()
				r.Add("generates_entries_loaded", 1)
				if pv != nil {
					r.Violation("C12:generates-panic", fmt.Sprintf("target(generates=[%q]) in package //%s panicked: %v", entry, pkg, pv), map[string]any{"package": pkg, "entry": entry})
					continue
				}
				if lerr != nil {
					continue // rejected
				}
				for _, t := range proj.Targets() {
					ha, ok := t.(starlark.HasAttrs)
					if !ok {
						continue
					}
					gv, _ := ha.Attr("generates")
					it, ok := gv.(starlark.Iterable)
					if !ok {
						continue
					}
					iter := it.Iterate()
					var x starlark.Value
					for iter.Next(&x) {
						g, _ := starlark.AsString(x)
						rel, err := filepath.Rel(root, g)
						if err != nil || rel == ".." || strings.HasPrefix(rel, ".."+string(filepath.Separator)) || filepath.IsAbs(rel) {
							r.Violation("C12:generated-file-outside-root", fmt.Sprintf("target(generates=[%q]) in package //%s of root %s was accepted with location %s", entry, pkg, root, g), map[string]any{"package": pkg, "entry": entry, "location": g})
						}
					}
					iter.Done()
				}
			}
		}
	}
}
