// C16 — diffs are faithful to both values (package github.com/pgavlin/dawn/diff).
//
// Bounded-exhaustive enumeration of ordered pairs of Starlark values (int sequences as lists,
// tuples and mixed; strings; bytes; nested sequences; dicts; scalars and cross-type pairs),
// each diffed by the real diff.Diff and decided by a reconstruction oracle:
//
//	(1) Diff does not fail or panic on comparable values;
//	(2) the diff is nil exactly when starlark.Equal(a, b);
//	(3) Old() is a and New() is b (same type and equal), in the order given;
//	(4) sequence diffs: walking the edits, common+deleted+old sides of replacements rebuild a,
//	    common+added+new sides rebuild b, and every replacement entry is itself a faithful diff
//	    of the old element against the new element (recursively);
//	(5) mapping diffs: an edit exactly for each key added, removed or changed, of the right
//	    kind with the right payload (recursively faithful for changes).
//
// Strings and bytes are diffed by dawn as sequences of BYTES (String.Index/Bytes.Index yield
// one-byte values); the oracle rebuilds them in the same unit. The reason-string clause of
// C16 is decided by another check.
//
// The route-size limit (diff/diff_slice.go: defaultRouteSize) is driven (i) for real by pairs
// of ~1500 mutually distinct ints, and (ii) by a second build of this same harness with
// `vtool overlay -const diff/diff_slice.go:defaultRouteSize=4` and the flag -scaled.
package main

import (
	"encoding/json"
	"flag"
	"fmt"
	"os"
	"reflect"
	"sort"
	"strings"
	"sync"
	"sync/atomic"

	"github.com/pgavlin/dawn/diff"
	"github.com/pgavlin/dawn/internal/verif/vlib"
	"go.starlark.net/resolve"
	"go.starlark.net/starlark"
)

var fScaled = flag.Bool("scaled", false, "this binary was built with a scaled-down diff.defaultRouteSize (overlay -const); only changes what the evidence says")

const realRouteSize = 2000000

// ---- helpers on Starlark values ------------------------------------------------------------

func equal(x, y starlark.Value) bool {
	if x == nil || y == nil {
		return false
	}
	eq, err := starlark.Equal(x, y)
	return err == nil && eq
}

// same: the value x "is" the value y for the purposes of Old()/New() and payloads: same type
// and equal (a list and a tuple with equal elements are different values; 1 and 1.0 are
// equal in Starlark but are told apart here only by type, which never matters inside the
// enumerated space because no pair of it contains both).
func same(x, y starlark.Value) bool {
	return x != nil && y != nil && x.Type() == y.Type() && equal(x, y)
}

// units returns the elements a sequence is diffed by: v.Index(i) for i < v.Len()
// (one-byte strings for String, one-byte Bytes for Bytes).
func units(v starlark.Value) ([]starlark.Value, bool) {
	ix, ok := v.(starlark.Indexable)
	if !ok || v == nil {
		return nil, false
	}
	out := make([]starlark.Value, ix.Len())
	for i := range out {
		out[i] = ix.Index(i)
	}
	return out, true
}

func isStrBytes(v starlark.Value) bool {
	switch v.(type) {
	case starlark.String, starlark.Bytes:
		return true
	}
	return false
}

func isNilDiff(d diff.ValueDiff) bool {
	if d == nil {
		return true
	}
	rv := reflect.ValueOf(d)
	return rv.Kind() == reflect.Ptr && rv.IsNil()
}

func str(v starlark.Value) string {
	if v == nil {
		return "<nil>"
	}
	s := v.String()
	if len(s) > 300 {
		s = s[:140] + " ... " + s[len(s)-140:]
	}
	return s
}

func diffStr(d diff.ValueDiff) (s string) {
	defer func() {
		if p := recover(); p != nil {
			s = fmt.Sprintf("<String() panicked: %v>", p)
		}
	}()
	if isNilDiff(d) {
		return "<nil>"
	}
	s = d.Type() + " " + d.String()
	if len(s) > 400 {
		s = s[:190] + " ... " + s[len(s)-190:]
	}
	return s
}

// ---- oracle ---------------------------------------------------------------------------------

type finding struct {
	sig, at, detail string
}

type checker struct {
	findings   []finding
	seen       map[string]bool
	outOfScope bool // starlark.Equal itself fails on (part of) the pair: not "two comparable values"
	noneEntry  int  // replacement entries that are None (an "unchanged" element that carries no value)
}

func (c *checker) fail(sig, at, detail string) {
	if c.seen == nil {
		c.seen = map[string]bool{}
	}
	if c.seen[sig] {
		return
	}
	c.seen[sig] = true
	c.findings = append(c.findings, finding{sig, at, detail})
}

func where(at string) string {
	if at == "" {
		return "top level"
	}
	return "nested diff at " + at
}

// check decides whether d is a faithful diff of x against y. It returns true if d's sides
// are exactly exchanged (so that the parent can keep that cause apart from its own replay).
func (c *checker) check(x, y starlark.Value, d diff.ValueDiff, at string) (swapped bool) {
	eq, err := starlark.Equal(x, y)
	if err != nil {
		c.outOfScope = true
		return false
	}
	if isNilDiff(d) {
		if !eq {
			c.fail("C16:empty-diff-of-unequal-values", at, fmt.Sprintf("%s: %s != %s but the diff is nil", where(at), str(x), str(y)))
		}
		return false
	}
	if eq {
		c.fail("C16:nonempty-diff-of-equal-values", at, fmt.Sprintf("%s: %s == %s but the diff is %s", where(at), str(x), str(y), diffStr(d)))
		return false
	}
	o, n := d.Old(), d.New()
	if !(same(o, x) && same(n, y)) {
		if same(o, y) && same(n, x) {
			swapped = true
			c.fail("C16:old-new-swapped", at, fmt.Sprintf("%s: diff of old=%s new=%s reports Old()=%s New()=%s", where(at), str(x), str(y), str(o), str(n)))
		} else {
			c.fail("C16:old-new-wrong", at, fmt.Sprintf("%s: diff of old=%s new=%s reports Old()=%s New()=%s", where(at), str(x), str(y), str(o), str(n)))
		}
	}
	switch dd := d.(type) {
	case *diff.SliceableDiff:
		c.checkSlice(x, y, dd, at)
	case *diff.MappingDiff:
		c.checkMapping(x, y, dd, at)
	case *diff.LiteralDiff:
		// only the two sides
	default:
		c.fail("C16:unknown-diff-type", at, fmt.Sprintf("%s: %T", where(at), d))
	}
	return swapped
}

func unitsEqual(got, want []starlark.Value) bool {
	if len(got) != len(want) {
		return false
	}
	for i := range got {
		if !equal(got[i], want[i]) {
			return false
		}
	}
	return true
}

func unitsStr(us []starlark.Value) string {
	var b strings.Builder
	b.WriteByte('<')
	for i, u := range us {
		if i > 0 {
			b.WriteString(", ")
		}
		if i >= 40 {
			fmt.Fprintf(&b, "… %d more", len(us)-i)
			break
		}
		if u == nil {
			b.WriteString("?")
		} else {
			b.WriteString(u.String())
		}
	}
	b.WriteByte('>')
	return b.String()
}

func (c *checker) checkSlice(x, y starlark.Value, sd *diff.SliceableDiff, at string) {
	xu, okx := units(x)
	yu, oky := units(y)
	if !okx || !oky {
		c.fail("C16:sequence-diff-of-non-sequence", at, fmt.Sprintf("%s: SliceableDiff for %s vs %s", where(at), x.Type(), y.Type()))
		return
	}
	// dawn represents a replaced run of a string/bytes as ONE LiteralDiff of two equally long segments
	seg := isStrBytes(x) && isStrBytes(y)
	type rep struct {
		i, j int
		nd   diff.ValueDiff
	}
	var oldU, newU []starlark.Value
	var reps []rep
	for ei, ev := range sd.Edits() {
		e, ok := ev.(*diff.Edit)
		if !ok || e == nil || e.Sliceable == nil {
			c.fail("C16:malformed-edit", at, fmt.Sprintf("%s: edit %d is %T", where(at), ei, ev))
			return
		}
		us, _ := units(e.Sliceable)
		switch e.Kind() {
		case diff.EditKindCommon:
			oldU = append(oldU, us...)
			newU = append(newU, us...)
		case diff.EditKindDelete:
			oldU = append(oldU, us...)
		case diff.EditKindAdd:
			newU = append(newU, us...)
		case diff.EditKindReplace:
			for _, en := range us {
				i, j := len(oldU), len(newU)
				if en == starlark.None {
					// "this position did not change": the entry carries neither side. It is taken
					// as the element of both values if they are indeed equal there, else as a hole.
					c.noneEntry++
					if !seg && i < len(xu) && j < len(yu) && equal(xu[i], yu[j]) {
						oldU, newU = append(oldU, xu[i]), append(newU, yu[j])
					} else {
						oldU, newU = append(oldU, nil), append(newU, nil)
					}
					continue
				}
				nd, ok := en.(diff.ValueDiff)
				if !ok || isNilDiff(nd) {
					c.fail("C16:malformed-edit", at, fmt.Sprintf("%s: replacement entry of edit %d is %s", where(at), ei, en.Type()))
					return
				}
				o, n := nd.Old(), nd.New()
				if seg {
					ou, ok1 := units(o)
					nu, ok2 := units(n)
					if !ok1 || !ok2 {
						c.fail("C16:malformed-edit", at, fmt.Sprintf("%s: segment replacement %s in edit %d", where(at), diffStr(nd), ei))
						return
					}
					if unitsEqual(ou, nu) {
						c.fail("C16:nonempty-diff-of-equal-values", at, fmt.Sprintf("%s: replacement %s replaces a segment by itself", where(at), diffStr(nd)))
					}
					oldU, newU = append(oldU, ou...), append(newU, nu...)
					continue
				}
				if i < len(xu) && j < len(yu) && !(same(o, xu[i]) && same(n, yu[j])) && same(o, yu[j]) && same(n, xu[i]) {
					// the nested diff has its sides exchanged: reported below under its own cause
					o, n = n, o
				}
				reps = append(reps, rep{i, j, nd})
				oldU, newU = append(oldU, o), append(newU, n)
			}
		default:
			c.fail("C16:malformed-edit", at, fmt.Sprintf("%s: edit %d has kind %q", where(at), ei, string(e.Kind())))
			return
		}
	}
	okOld, okNew := unitsEqual(oldU, xu), unitsEqual(newU, yu)
	if !okOld {
		c.fail("C16:edits-do-not-rebuild-old", at, fmt.Sprintf("%s: edits %s of old=%s new=%s: common+deleted+old sides give %s", where(at), diffStr(sd), str(x), str(y), unitsStr(oldU)))
	}
	if !okNew {
		c.fail("C16:edits-do-not-rebuild-new", at, fmt.Sprintf("%s: edits %s of old=%s new=%s: common+added+new sides give %s", where(at), diffStr(sd), str(x), str(y), unitsStr(newU)))
	}
	if okOld && okNew {
		// positions are aligned: every replacement entry must be a faithful diff of its two elements
		for _, r := range reps {
			c.check(xu[r.i], yu[r.j], r.nd, fmt.Sprintf("%s[%d]", at, r.i))
		}
	}
}

func (c *checker) checkMapping(x, y starlark.Value, md *diff.MappingDiff, at string) {
	xm, okx := x.(starlark.IterableMapping)
	ym, oky := y.(starlark.IterableMapping)
	if !okx || !oky {
		c.fail("C16:mapping-diff-of-non-mapping", at, fmt.Sprintf("%s: MappingDiff for %s vs %s", where(at), x.Type(), y.Type()))
		return
	}
	edits := md.Edits()
	if edits == nil {
		c.fail("C16:malformed-edit", at, where(at)+": MappingDiff without edits")
		return
	}
	// expect: the edit of key k must be of the given kind and carry the given payload
	expect := func(k starlark.Value, kind diff.EditKind, payload, ov, nv starlark.Value) {
		ev, has, _ := edits.Get(k)
		kat := fmt.Sprintf("%s[%s]", at, k.String())
		if !has {
			c.fail("C16:mapping-edit-missing", kat, fmt.Sprintf("%s: key %s (%s) of old=%s new=%s has no edit in %s", where(at), k, string(kind), str(x), str(y), diffStr(md)))
			return
		}
		if bool(md.Has(k)) != has {
			c.fail("C16:mapping-edit-wrong", kat, fmt.Sprintf("%s: Has(%s) disagrees with Edits()", where(at), k))
		}
		e, ok := ev.(*diff.Edit)
		var us []starlark.Value
		if ok && e != nil && e.Sliceable != nil {
			us, _ = units(e.Sliceable)
		}
		if !ok || e.Kind() != kind || len(us) != 1 {
			c.fail("C16:mapping-edit-wrong", kat, fmt.Sprintf("%s: key %s of old=%s new=%s wants a %s edit with one value, got %s", where(at), k, str(x), str(y), string(kind), str(ev)))
			return
		}
		if kind != diff.EditKindReplace {
			if !same(us[0], payload) {
				c.fail("C16:mapping-edit-wrong", kat, fmt.Sprintf("%s: key %s of old=%s new=%s: %s edit carries %s, want %s", where(at), k, str(x), str(y), string(kind), str(us[0]), str(payload)))
			}
			return
		}
		nd, ok := us[0].(diff.ValueDiff)
		if !ok || isNilDiff(nd) {
			c.fail("C16:mapping-edit-wrong", kat, fmt.Sprintf("%s: key %s: replace edit carries %s, not a diff", where(at), k, str(us[0])))
			return
		}
		c.check(ov, nv, nd, kat)
	}
	for _, it := range xm.Items() {
		k, ov := it[0], it[1]
		nv, has, _ := ym.Get(k)
		switch {
		case !has:
			expect(k, diff.EditKindDelete, ov, nil, nil)
		case equal(ov, nv):
			if ev, hasE, _ := edits.Get(k); hasE {
				c.fail("C16:mapping-edit-spurious", at, fmt.Sprintf("%s: unchanged key %s of old=%s new=%s has edit %s", where(at), k, str(x), str(y), str(ev)))
			}
		default:
			if _, err := starlark.Equal(ov, nv); err != nil {
				c.outOfScope = true
				continue
			}
			expect(k, diff.EditKindReplace, nil, ov, nv)
		}
	}
	for _, it := range ym.Items() {
		k, nv := it[0], it[1]
		if _, has, _ := xm.Get(k); !has {
			expect(k, diff.EditKindAdd, nv, nil, nil)
		}
	}
	for _, it := range edits.Items() {
		k := it[0]
		_, inX, _ := xm.Get(k)
		_, inY, _ := ym.Get(k)
		if !inX && !inY {
			c.fail("C16:mapping-edit-spurious", at, fmt.Sprintf("%s: edit %s for key %s that is in neither old=%s nor new=%s", where(at), str(it[1]), k, str(x), str(y)))
		}
	}
}

// shape: the outcome class of a diff (edit kinds in order, nested shapes of replacements).
func shape(d diff.ValueDiff, depth int) string {
	if isNilDiff(d) {
		return "nil"
	}
	if depth > 6 {
		return "…"
	}
	switch dd := d.(type) {
	case *diff.LiteralDiff:
		return "L"
	case *diff.SliceableDiff:
		var b strings.Builder
		b.WriteString("S[")
		for _, ev := range dd.Edits() {
			e, ok := ev.(*diff.Edit)
			if !ok {
				b.WriteString("?")
				continue
			}
			switch e.Kind() {
			case diff.EditKindCommon:
				b.WriteByte('=')
			case diff.EditKindDelete:
				b.WriteByte('-')
			case diff.EditKindAdd:
				b.WriteByte('+')
			case diff.EditKindReplace:
				b.WriteString("~(")
				us, _ := units(e.Sliceable)
				for _, u := range us {
					if nd, ok := u.(diff.ValueDiff); ok {
						b.WriteString(shape(nd, depth+1))
					} else {
						b.WriteString("None")
					}
					b.WriteByte(',')
				}
				b.WriteByte(')')
			}
		}
		b.WriteByte(']')
		return b.String()
	case *diff.MappingDiff:
		var parts []string
		for _, it := range dd.Edits().Items() {
			e, ok := it[1].(*diff.Edit)
			if !ok {
				parts = append(parts, "?")
				continue
			}
			s := string(e.Kind())[:1]
			if e.Kind() == diff.EditKindReplace {
				if us, _ := units(e.Sliceable); len(us) == 1 {
					if nd, ok := us[0].(diff.ValueDiff); ok {
						s = "~" + shape(nd, depth+1)
					}
				}
			}
			parts = append(parts, s)
		}
		sort.Strings(parts)
		return "M{" + strings.Join(parts, ",") + "}"
	}
	return fmt.Sprintf("%T", d)
}

func hasEdit(d diff.ValueDiff) bool {
	switch dd := d.(type) {
	case *diff.SliceableDiff:
		for _, ev := range dd.Edits() {
			if e, ok := ev.(*diff.Edit); ok && e.Kind() != diff.EditKindCommon {
				return true
			}
		}
	case *diff.MappingDiff:
		return dd.Edits() != nil && len(dd.Edits().Items()) > 0
	}
	return false
}

// ---- harness --------------------------------------------------------------------------------

type replay struct {
	A         string `json:"a"` // Starlark expression
	B         string `json:"b"` // Starlark expression
	Diff      string `json:"diff"`
	Old       string `json:"diff_old"`
	New       string `json:"diff_new"`
	At        string `json:"at"`
	Detail    string `json:"detail"`
	Family    string `json:"family"`
	RouteSize int    `json:"route_size_constant"`
	LimitHit  bool   `json:"route_limit_hit_at_top_level"`
}

type best struct {
	rank   uint64
	count  int64
	what   string
	replay replay
}

type harness struct {
	r      *vlib.Run
	mu     sync.Mutex
	viol   map[string]*best
	shapes sync.Map

	evals, nontrivial, nilDiffs, literal, sliceable, mapping, noEditNonNil atomic.Int64
	outOfScope, limitHit, noneEntries, violatingPairs                      atomic.Int64
}

func (h *harness) report(f finding, rank uint64, a, b starlark.Value, exprA, exprB, fam string, d diff.ValueDiff, hit bool) {
	h.mu.Lock()
	defer h.mu.Unlock()
	v := h.viol[f.sig]
	if v == nil {
		v = &best{rank: ^uint64(0)}
		h.viol[f.sig] = v
	}
	v.count++
	if rank >= v.rank {
		return
	}
	v.rank = rank
	rp := replay{A: exprA, B: exprB, Diff: diffStr(d), At: f.at, Detail: f.detail, Family: fam, RouteSize: diff.VerifRouteSize, LimitHit: hit}
	if !isNilDiff(d) {
		rp.Old, rp.New = str(d.Old()), str(d.New())
	}
	v.replay = rp
	sa, sb := exprA, exprB
	if len(sa) > 120 {
		sa = sa[:120] + "…"
	}
	if len(sb) > 120 {
		sb = sb[:120] + "…"
	}
	v.what = fmt.Sprintf("Diff(%s, %s): %s", sa, sb, f.detail)
}

// doPair diffs one pair with the real code and applies the oracle.
func (h *harness) doPair(a, b starlark.Value, exprA, exprB, fam string, rank uint64) (d diff.ValueDiff, c *checker, hit bool) {
	var err error
	var panicked any
	func() {
		defer func() { panicked = recover() }()
		d, err = diff.Diff(a, b)
	}()
	h.evals.Add(1)
	c = &checker{}
	as, aSl := a.(starlark.Sliceable)
	bs, bSl := b.(starlark.Sliceable)
	if aSl && bSl {
		if hit = diff.VerifRouteLimitHit(as, bs); hit {
			h.limitHit.Add(1)
		}
	}
	switch {
	case panicked != nil:
		c.fail("C16:diff-panics", "", fmt.Sprintf("panic: %v", panicked))
		d = nil
	case err != nil:
		if _, eerr := starlark.Equal(a, b); eerr != nil {
			c.outOfScope = true // the two values are not comparable at all (depth limit)
		} else {
			c.fail("C16:diff-errors", "", fmt.Sprintf("error: %v", err))
		}
		d = nil
	default:
		func() {
			defer func() {
				if p := recover(); p != nil {
					c.fail("C16:diff-value-panics", "", fmt.Sprintf("walking the diff %s panicked: %v", diffStr(d), p))
				}
			}()
			c.check(a, b, d, "")
		}()
		switch {
		case isNilDiff(d):
			h.nilDiffs.Add(1)
		case hasEdit(d):
			h.nontrivial.Add(1)
		default:
			if _, ok := d.(*diff.LiteralDiff); !ok {
				h.noEditNonNil.Add(1)
			}
		}
		switch d.(type) {
		case *diff.LiteralDiff:
			h.literal.Add(1)
		case *diff.SliceableDiff:
			h.sliceable.Add(1)
		case *diff.MappingDiff:
			h.mapping.Add(1)
		}
		h.shapes.Store(shape(d, 0), true)
	}
	if c.outOfScope {
		h.outOfScope.Add(1)
	}
	h.noneEntries.Add(int64(c.noneEntry))
	if len(c.findings) > 0 {
		h.violatingPairs.Add(1)
	}
	for _, f := range c.findings {
		h.report(f, rank, a, b, exprA, exprB, fam, d, hit)
	}
	return d, c, hit
}

// ---- enumeration ----------------------------------------------------------------------------

type table struct {
	vals []starlark.Value
	keys []string
	idx  map[string]int
}

func (t *table) add(v starlark.Value) int {
	k := v.Type() + " " + v.String()
	if i, ok := t.idx[k]; ok {
		return i
	}
	v.Freeze() // shared read-only between goroutines (iterating an unfrozen list/dict writes to it)
	t.idx[k] = len(t.vals)
	t.vals = append(t.vals, v)
	t.keys = append(t.keys, v.String())
	return len(t.vals) - 1
}

// seqs enumerates all index sequences over an alphabet of k symbols, shortest first.
func seqs(k, maxLen int) [][]int {
	out := [][]int{{}}
	prev := [][]int{{}}
	for l := 1; l <= maxLen; l++ {
		var cur [][]int
		for _, p := range prev {
			for s := 0; s < k; s++ {
				q := append(append([]int{}, p...), s)
				cur = append(cur, q)
			}
		}
		out = append(out, cur...)
		prev = cur
	}
	return out
}

func mkList(elems ...starlark.Value) *starlark.List { return starlark.NewList(elems) }

func mkDict(kv ...starlark.Value) *starlark.Dict {
	d := starlark.NewDict(len(kv) / 2)
	for i := 0; i+1 < len(kv); i += 2 {
		if err := d.SetKey(kv[i], kv[i+1]); err != nil {
			vlib.Fatalf("mkDict: %v", err)
		}
	}
	return d
}

func I(i int) starlark.Value { return starlark.MakeInt(i) }

type family struct {
	name string
	as   []int // table indices
	bs   []int
}

func evalExpr(src string) starlark.Value {
	resolve.AllowSet = true
	th := &starlark.Thread{Name: "c16"}
	v, err := starlark.Eval(th, "<c16>", src, nil)
	if err != nil {
		vlib.Fatalf("evaluating %q: %v", src, err)
	}
	return v
}

func main() {
	r := vlib.Start("C16")
	h := &harness{r: r, viol: map[string]*best{}}
	routeSize := diff.VerifRouteSize
	if *fScaled && routeSize >= 1000 {
		vlib.Fatalf("-scaled given but diff.defaultRouteSize is %d: build with `vtool overlay -const diff/diff_slice.go:defaultRouteSize=4`", routeSize)
	}
	if !*fScaled && routeSize != realRouteSize {
		vlib.Fatalf("diff.defaultRouteSize is %d, not %d: pass -scaled for a scaled build (or update realRouteSize if dawn changed the constant)", routeSize, realRouteSize)
	}

	if r.ReplayIn != "" {
		b, err := os.ReadFile(r.ReplayIn)
		if err != nil {
			vlib.Fatalf("%v", err)
		}
		var f struct {
			Replay replay `json:"replay"`
		}
		if err := json.Unmarshal(b, &f); err != nil {
			vlib.Fatalf("%v", err)
		}
		a, bb := evalExpr(f.Replay.A), evalExpr(f.Replay.B)
		d, c, hit := h.doPair(a, bb, f.Replay.A, f.Replay.B, "replay", 0)
		fmt.Printf("Diff(%s, %s) = %s\n", str(a), str(bb), diffStr(d))
		if !isNilDiff(d) {
			fmt.Printf("  Old() = %s\n  New() = %s\n", str(d.Old()), str(d.New()))
		}
		fmt.Printf("  route size constant %d, limit hit at top level: %v\n", routeSize, hit)
		for _, fd := range c.findings {
			fmt.Printf("  %s: %s\n", fd.sig, fd.detail)
		}
		for sig, v := range h.viol {
			r.Violation(sig, v.what, v.replay)
		}
		r.Evidence, r.Replays = "", "" // a replay neither replaces the evidence nor the recorded case
		r.Finish(vlib.Coverage{Evaluations: 1, States: 1, Transitions: 1, Rule: "replay of one recorded pair"})
	}

	thorough := r.Thorough()
	seqLen, binLen, strLen, mixStrLen, nestLen := 4, 6, 4, 2, 3
	if thorough {
		seqLen, binLen, strLen, mixStrLen, nestLen = 5, 8, 5, 3, 4
	}
	t := &table{idx: map[string]int{}}
	var fams []family

	// (a) int sequences over {0,1,2}: list/list, tuple/tuple, list/tuple, tuple/list
	var lists, tuples []int
	for _, s := range seqs(3, seqLen) {
		el := make([]starlark.Value, len(s))
		tu := make(starlark.Tuple, len(s))
		for i, x := range s {
			el[i], tu[i] = I(x), I(x)
		}
		lists = append(lists, t.add(mkList(el...)))
		tuples = append(tuples, t.add(tu))
	}
	fams = append(fams, family{"int-lists", lists, lists}, family{"int-tuples", tuples, tuples},
		family{"int-list-vs-tuple", lists, tuples}, family{"int-tuple-vs-list", tuples, lists})

	// longer sequences over {0,1}: long enough for several interleaved runs of common/deleted/added
	// elements (and, in a scaled build, for several abandoned searches per pair)
	var bins []int
	for _, s := range seqs(2, binLen) {
		el := make([]starlark.Value, len(s))
		for i, x := range s {
			el[i] = I(x)
		}
		bins = append(bins, t.add(mkList(el...)))
	}
	fams = append(fams, family{"binary-lists", bins, bins})

	// (b) strings and bytes over {a,b,c}; string-vs-bytes for shorter ones
	var strs, byts, sstrs, sbyts []int
	for _, s := range seqs(3, strLen) {
		bs := make([]byte, len(s))
		for i, x := range s {
			bs[i] = "abc"[x]
		}
		si, bi := t.add(starlark.String(bs)), t.add(starlark.Bytes(bs))
		strs, byts = append(strs, si), append(byts, bi)
		if len(s) <= mixStrLen {
			sstrs, sbyts = append(sstrs, si), append(sbyts, bi)
		}
	}
	fams = append(fams, family{"strings", strs, strs}, family{"bytes", byts, byts},
		family{"string-vs-bytes", sstrs, sbyts}, family{"bytes-vs-string", sbyts, sstrs})
	// multi-byte runes: the unit is the byte, the rebuilt values must be byte-identical
	var uni []int
	for _, s := range []string{"", "e", "é", "è", "éé", "aé", "éa", "日", "日本", "本日", "a日b", "\xc3", "\xa9", "\xff\xfe"} {
		uni = append(uni, t.add(starlark.String(s)))
	}
	fams = append(fams, family{"non-ascii-strings", uni, uni})

	// (c) nested sequences: elements from {0, [], [0], [1], [0,1], "a"}
	nestElemL := func(x int) starlark.Value {
		switch x {
		case 0:
			return I(0)
		case 1:
			return mkList()
		case 2:
			return mkList(I(0))
		case 3:
			return mkList(I(1))
		case 4:
			return mkList(I(0), I(1))
		}
		return starlark.String("a")
	}
	nestElemT := func(x int) starlark.Value {
		switch x {
		case 0:
			return I(0)
		case 1:
			return starlark.Tuple{}
		case 2:
			return starlark.Tuple{I(0)}
		case 3:
			return starlark.Tuple{I(1)}
		case 4:
			return starlark.Tuple{I(0), I(1)}
		}
		return starlark.String("a")
	}
	var nestL, nestT []int
	for _, s := range seqs(6, nestLen) {
		el := make([]starlark.Value, len(s))
		for i, x := range s {
			el[i] = nestElemL(x)
		}
		nestL = append(nestL, t.add(mkList(el...)))
	}
	fams = append(fams, family{"nested-lists", nestL, nestL})
	for _, s := range seqs(6, 3) {
		tu := make(starlark.Tuple, len(s))
		for i, x := range s {
			tu[i] = nestElemT(x)
		}
		nestT = append(nestT, t.add(tu))
	}
	nl3 := nestL
	if len(nl3) > len(nestT) {
		nl3 = nestL[:len(nestT)] // the sequences of length <= 3 (shortest first)
	}
	if thorough {
		fams = append(fams, family{"nested-tuples", nestT, nestT}, family{"nested-list-vs-tuple", nl3, nestT}, family{"nested-tuple-vs-list", nestT, nl3})
	} else {
		// quick: length <= 2 for the tuple variants
		fams = append(fams, family{"nested-tuples", nestT[:43], nestT[:43]}, family{"nested-list-vs-tuple", nl3[:43], nestT[:43]}, family{"nested-tuple-vs-list", nestT[:43], nl3[:43]})
	}

	// (d) dicts: keys subset of {a,b,c}, each absent or bound to one of the values
	dictVals := []func() starlark.Value{
		func() starlark.Value { return I(0) },
		func() starlark.Value { return I(1) },
		func() starlark.Value { return mkList(I(0)) },
		func() starlark.Value { return mkList(I(1)) },
		func() starlark.Value { return mkDict(starlark.String("a"), I(0)) },
		func() starlark.Value { return starlark.None }, // what Get answers for a missing key, as a present value
	}
	if thorough {
		dictVals = append(dictVals,
			func() starlark.Value { return mkList(I(0), I(1)) },
			func() starlark.Value { return mkDict(starlark.String("a"), I(1)) },
			func() starlark.Value { return starlark.String("ab") })
	}
	var dicts []int
	nv := len(dictVals) + 1
	for code := 0; code < nv*nv*nv; code++ {
		d := starlark.NewDict(3)
		c := code
		for _, k := range []string{"a", "b", "c"} {
			if x := c % nv; x > 0 {
				d.SetKey(starlark.String(k), dictVals[x-1]())
			}
			c /= nv
		}
		dicts = append(dicts, t.add(d))
	}
	fams = append(fams, family{"dicts", dicts, dicts})

	// (e) scalars and cross-type pairs
	var pool []int
	big := starlark.MakeInt(1).Lsh(70)
	set0 := starlark.NewSet(1)
	set0.Insert(I(0))
	set1 := starlark.NewSet(1)
	set1.Insert(I(1))
	for _, v := range []starlark.Value{
		starlark.None, starlark.True, starlark.False, I(0), I(1), I(-1), big, starlark.Float(0.5), starlark.Float(2.5),
		starlark.String(""), starlark.String("a"), starlark.String("ab"), starlark.String("0"), starlark.Bytes(""), starlark.Bytes("a"), starlark.Bytes("ab"),
		mkList(), mkList(I(0)), mkList(I(0), I(1)), mkList(starlark.String("a")), mkList(starlark.String("a"), starlark.String("b")), mkList(starlark.None), mkList(starlark.True),
		starlark.Tuple{}, starlark.Tuple{I(0)}, starlark.Tuple{I(0), I(1)}, starlark.Tuple{starlark.String("a"), starlark.String("b")},
		mkList(mkList(I(0))), mkList(starlark.Tuple{I(0)}), starlark.Tuple{mkList(I(0))}, mkList(mkList(mkList(I(0)))), mkList(mkList(mkList(I(1)), I(2))),
		mkList(starlark.String("ab")), mkList(starlark.String("ac")), mkList(starlark.Bytes("ab")),
		mkDict(), mkDict(starlark.String("a"), I(0)), mkDict(I(0), starlark.String("a")), mkDict(starlark.Tuple{I(0)}, I(1)), mkDict(starlark.Tuple{I(0)}, I(2)),
		mkDict(starlark.String("b"), I(1), starlark.String("a"), I(0)), mkDict(starlark.String("a"), I(0), starlark.String("b"), I(1)), mkDict(starlark.String("b"), I(0), starlark.String("a"), I(1)),
		mkDict(starlark.String("a"), mkList(I(0))), mkDict(starlark.String("a"), starlark.Tuple{I(0)}), mkDict(starlark.String("a"), starlark.String("xy")), mkDict(starlark.String("a"), starlark.String("xz")),
		mkDict(starlark.String("a"), mkDict(starlark.String("b"), mkList(I(0), I(1)))), mkDict(starlark.String("a"), mkDict(starlark.String("b"), mkList(I(1)))),
		mkList(mkDict(starlark.String("a"), I(0))), mkList(mkDict(starlark.String("a"), I(1))), mkList(mkDict(starlark.String("a"), I(1)), I(0)),
		mkDict(I(0), I(0), starlark.True, I(1), starlark.None, I(2)), mkDict(I(0), I(1), starlark.True, I(1)),
		set0, set1, mkList(set0), mkDict(starlark.String("a"), set0), mkDict(starlark.String("a"), set1),
		// numerically equal values of different types (1 == 1.0 in Starlark), alone and inside containers
		starlark.Float(0), starlark.Float(1), starlark.Float(-1), starlark.Float(2), I(2),
		mkList(starlark.Float(0)), mkList(starlark.Float(0), starlark.Float(1)), starlark.Tuple{starlark.Float(0)},
		mkDict(starlark.String("a"), starlark.Float(0)), mkDict(starlark.String("a"), starlark.Float(1)),
		mkDict(starlark.String("a"), starlark.Float(0), starlark.String("b"), I(1)), mkDict(starlark.String("a"), I(0), starlark.String("b"), I(2)),
		mkDict(starlark.String("a"), I(1), starlark.String("m"), starlark.String("x")), mkDict(starlark.String("a"), starlark.Float(1), starlark.String("m"), starlark.String("y")),
	} {
		pool = append(pool, t.add(v))
	}
	fams = append(fams, family{"scalars-and-cross-type", pool, pool})

	// (f) deep nesting: depth d chains differing only at the innermost leaf (Equal itself
	// gives up beyond starlark.CompareLimit; those pairs are outside "comparable values")
	chain := func(kind, depth, leaf int) starlark.Value {
		var v starlark.Value = I(leaf)
		for i := 0; i < depth; i++ {
			switch kind {
			case 0:
				v = mkList(v)
			case 1:
				v = starlark.Tuple{v}
			case 2:
				v = mkDict(starlark.String("k"), v)
			default:
				if i%2 == 0 {
					v = mkList(I(7), v)
				} else {
					v = mkDict(starlark.String("k"), v, starlark.String("j"), I(7))
				}
			}
		}
		return v
	}
	type xp struct{ i, j int }
	var chains []xp
	for kind := 0; kind < 4; kind++ {
		for depth := 1; depth <= 12; depth++ {
			a, b := t.add(chain(kind, depth, 0)), t.add(chain(kind, depth, 1))
			chains = append(chains, xp{a, b}, xp{b, a}, xp{a, a})
		}
	}

	// ---- the work list: distinct ordered pairs (dedupe across families with a bit matrix) ----
	n := len(t.vals)
	bits := make([]uint64, (n*n+63)/64)
	type job struct {
		i, j uint32
		fam  uint16
	}
	var jobs []job
	famCount := map[string]int64{}
	addJob := func(i, j, fam int, name string) {
		p := i*n + j
		if bits[p/64]&(1<<(p%64)) != 0 {
			return
		}
		bits[p/64] |= 1 << (p % 64)
		jobs = append(jobs, job{uint32(i), uint32(j), uint16(fam)})
		famCount[name]++
	}
	for fi, f := range fams {
		for _, i := range f.as {
			for _, j := range f.bs {
				addJob(i, j, fi, f.name)
			}
		}
	}
	fams = append(fams, family{name: "deep-chains"})
	for _, c := range chains {
		addJob(c.i, c.j, len(fams)-1, "deep-chains")
	}

	const chunk = 256
	nChunks := (len(jobs) + chunk - 1) / chunk
	var expired atomic.Bool
	r.Parallel(nChunks, func(ci int) {
		if expired.Load() {
			return
		}
		if r.Expired() {
			expired.Store(true)
			r.Cap("wall-clock budget: enumeration stopped early")
			return
		}
		lo, hi := ci*chunk, (ci+1)*chunk
		if hi > len(jobs) {
			hi = len(jobs)
		}
		for k := lo; k < hi; k++ {
			jb := jobs[k]
			ka, kb := t.keys[jb.i], t.keys[jb.j]
			rank := uint64(len(ka)+len(kb))<<40 | uint64(k)
			if t.vals[jb.i].Type() != t.vals[jb.j].Type() {
				rank |= 1 << 58 // the reported example is the smallest pair, same-type pairs first
			}
			h.doPair(t.vals[jb.i], t.vals[jb.j], ka, kb, fams[jb.fam].name, rank)
		}
	})
	enumPairs := int64(len(jobs))
	enumHit := h.limitHit.Load()

	// ---- real-size pairs across the route-size limit (written as Starlark expressions) ----
	// With N mutually distinct elements on each side and equal lengths the O(NP) search stores
	// (p+1)^2 points after round p, i.e. more than 2,000,000 from p = 1414 on, and needs p = N.
	bigPairs := [][2]string{
		{"list(range(1500))", "list(range(5000, 6500))"},
		{"list(range(1450))", "[i if i % 50 == 0 else 10000 + i for i in range(1550)]"},
		{"[i if i % 50 == 0 else 20000 + i for i in range(1600)]", "list(range(1480))"},
		{"list(range(1300))", "list(range(5000, 6300))"}, // contrast: stays below the real limit
		{"tuple(range(1500))", "[i if i % 3 == 0 else 30000 + i for i in range(1500)]"},
	}
	bigHits := []map[string]any{}
	for bi, bp := range bigPairs {
		a, b := evalExpr(bp[0]), evalExpr(bp[1])
		a.Freeze()
		b.Freeze()
		d, c, hit := h.doPair(a, b, bp[0], bp[1], "real-size", uint64(1)<<60|uint64(bi))
		sigs := []string{}
		for _, f := range c.findings {
			sigs = append(sigs, f.sig)
		}
		nEdits := 0
		if sd, ok := d.(*diff.SliceableDiff); ok {
			nEdits = len(sd.Edits())
		}
		bigHits = append(bigHits, map[string]any{"a": bp[0], "b": bp[1], "route_limit_hit": hit, "edits": nEdits, "violations": sigs})
	}

	// ---- samples ----
	for _, p := range [][2]starlark.Value{
		{mkList(I(1), I(2), I(3)), mkList(I(1), I(3))},
		{starlark.String("abcab"), starlark.String("acbb")},
		{mkDict(starlark.String("a"), mkList(I(0)), starlark.String("b"), I(1)), mkDict(starlark.String("a"), mkList(I(1)), starlark.String("c"), I(0))},
		{mkList(mkList(I(0), I(1)), I(0)), starlark.Tuple{mkList(I(1))}},
	} {
		d, _ := diff.Diff(p[0], p[1])
		s := map[string]any{"a": p[0].String(), "b": p[1].String(), "diff": diffStr(d)}
		if !isNilDiff(d) {
			s["diff_old"], s["diff_new"] = d.Old().String(), d.New().String()
		}
		r.Sample(s)
	}

	// ---- verdicts ----
	sigs := make([]string, 0, len(h.viol))
	for sig := range h.viol {
		sigs = append(sigs, sig)
	}
	sort.Strings(sigs)
	for _, sig := range sigs {
		v := h.viol[sig]
		r.Violation(sig, v.what, v.replay)
		for k := int64(1); k < v.count; k++ {
			r.Violation(sig, "", nil)
		}
	}
	nShapes := int64(0)
	var someShapes []string
	h.shapes.Range(func(k, _ any) bool {
		nShapes++
		if len(someShapes) < 4000 {
			someShapes = append(someShapes, k.(string))
		}
		return true
	})
	sort.Slice(someShapes, func(i, j int) bool {
		if len(someShapes[i]) != len(someShapes[j]) {
			return len(someShapes[i]) < len(someShapes[j])
		}
		return someShapes[i] < someShapes[j]
	})
	if len(someShapes) > 25 {
		someShapes = someShapes[:25]
	}
	r.Extra["route_size_constant"] = routeSize
	r.Extra["scaled_build"] = *fScaled
	r.Extra["pairs_per_family"] = famCount
	r.Extra["distinct_values"] = n
	r.Extra["enumerated_pairs"] = enumPairs
	r.Extra["enumerated_pairs_where_route_limit_hit"] = enumHit
	r.Extra["real_size_pairs"] = bigHits
	r.Extra["nil_diffs"] = h.nilDiffs.Load()
	r.Extra["literal_diffs"] = h.literal.Load()
	r.Extra["sequence_diffs"] = h.sliceable.Load()
	r.Extra["mapping_diffs"] = h.mapping.Load()
	r.Extra["non_nil_diffs_without_any_edit"] = h.noEditNonNil.Load()
	r.Extra["pairs_outside_scope_equal_fails"] = h.outOfScope.Load()
	r.Extra["replacement_entries_that_are_None"] = h.noneEntries.Load()
	r.Extra["pairs_with_a_violation"] = h.violatingPairs.Load()
	r.Extra["shortest_shapes"] = someShapes
	r.Assumptions = []string{
		"'equal' is starlark.Equal; Old()/New() and payloads are compared by type and starlark.Equal, rebuilt sequences element-wise by starlark.Equal",
		"strings and bytes are sequences of bytes (String.Index), as dawn diffs them",
		"a pair on which starlark.Equal itself fails (nesting deeper than starlark.CompareLimit) is outside 'pairs of values' and only counted",
		"a non-nil diff whose edits are all 'common' (a list against a tuple with equal elements) counts as non-empty: the values are unequal and the diff shows both sides",
		"all values are frozen before diffing (they are shared between goroutines)",
		"the reason-string clause of C16 (function.go diffEnv) is decided by another check",
	}
	lim := "the real route-size limit is crossed by real-size pairs of ~1500 mutually distinct ints (route_limit_hit is observed through an in-package probe); the scaled limit needs a second build (-scaled)"
	if *fScaled {
		lim = fmt.Sprintf("SCALED BUILD: diff.defaultRouteSize=%d, so the route-limit branch is taken inside the enumerated space", routeSize)
	}
	r.Finish(vlib.Coverage{
		Evaluations:        h.evals.Load(),
		DistinctNontrivial: h.nontrivial.Load(),
		Rule: "every ordered pair (a,b) within each family, deduplicated across families: int sequences over {0,1,2} as list/list, tuple/tuple, list/tuple, tuple/list; longer lists over {0,1}; strings, bytes (and string vs bytes) over {a,b,c}; non-ASCII strings; nested lists/tuples with elements from {0,[],[0],[1],[0,1],\"a\"}; dicts with keys in {a,b,c} bound to small scalars/lists/dicts; a pool of scalars and cross-type values; deep chains; each pair diffed once by diff.Diff. " +
			"distinct_nontrivial = distinct pairs whose diff is non-nil and contains at least one add/delete/replace edit. " + lim,
		States:      enumPairs + int64(len(bigPairs)),
		Transitions: h.evals.Load(),
		Exhaustive:  true,
		Outcomes:    nShapes,
		Bounds: map[string]any{"int_sequence_len": seqLen, "binary_sequence_len": binLen, "string_len": strLen, "string_vs_bytes_len": mixStrLen, "nested_list_len": nestLen,
			"nested_tuple_len": map[bool]int{true: 3, false: 2}[thorough], "dict_keys": 3, "dict_value_choices": len(dictVals), "pool": len(pool), "chain_depth": 12, "real_size_pairs": len(bigPairs)},
	})
}
