package mvsfake

// Tally and Guard: per-item result accumulation and hang containment.
//
// Every operation of the code under test runs on its own goroutine with a generous timeout.
// A timed-out operation cannot be cancelled (it spins), so the worker process finishes the
// current item with the spinner leaked, dumps the item's tally to a file, prints a marker
// and exits with status 3; vlib restarts a fresh worker after that item and the parent's
// OnCrash handler merges the dumped tally. Nothing of the item is lost except the operations
// that were skipped because their kind had already hung (they are counted).

import (
	"encoding/json"
	"fmt"
	"os"
	"path/filepath"
	"sort"
	"strings"
	"sync"
	"time"

	"github.com/pgavlin/dawn/internal/verif/vlib"
)

type TViol struct {
	Size   int    `json:"size"`
	What   string `json:"what"`
	Replay any    `json:"replay"`
	Count  int64  `json:"count"`
}

// Tally collects what one item observed. Not thread-safe (one item = one goroutine).
type Tally struct {
	Counters map[string]int64           `json:"counters"`
	Maxes    map[string]int64           `json:"maxes"`
	Sets     map[string]map[string]bool `json:"sets"`
	Viol     map[string]*TViol          `json:"viol"`
	Samples  []any                      `json:"samples"`
}

func NewTally() *Tally {
	return &Tally{Counters: map[string]int64{}, Maxes: map[string]int64{}, Sets: map[string]map[string]bool{}, Viol: map[string]*TViol{}}
}

func (t *Tally) Add(name string, n int64) { t.Counters[name] += n }
func (t *Tally) Max(name string, n int64) {
	if n > t.Maxes[name] {
		t.Maxes[name] = n
	}
}
func (t *Tally) Outcome(set, member string) {
	if t.Sets[set] == nil {
		t.Sets[set] = map[string]bool{}
	}
	t.Sets[set][member] = true
}
func (t *Tally) Sample(s any) {
	if len(t.Samples) < 2 {
		t.Samples = append(t.Samples, s)
	}
}

// Violation records a failing case; per signature the smallest (by size) replay is kept.
// replay may be a func() any, evaluated only when it is kept.
func (t *Tally) Violation(sig string, size int, what string, replay any) {
	v := t.Viol[sig]
	if v == nil {
		v = &TViol{Size: 1 << 30}
		t.Viol[sig] = v
	}
	v.Count++
	if size < v.Size {
		if f, ok := replay.(func() any); ok {
			replay = f()
		}
		v.Size, v.What, v.Replay = size, what, replay
	}
}

var (
	bestMu sync.Mutex
	best   = map[string]int{} // per process: smallest violation size published per signature
)

// Apply merges the tally into the run (worker- or parent-side).
func (t *Tally) Apply(r *vlib.Run) {
	for k, v := range t.Counters {
		r.Add(k, v)
	}
	for k, v := range t.Maxes {
		r.Max(k, v)
	}
	for s, m := range t.Sets {
		for k := range m {
			r.Outcome(s, k)
		}
	}
	for _, s := range t.Samples {
		r.Sample(s)
	}
	for sig, v := range t.Viol {
		r.Add("viol:"+sig, v.Count)
		r.Outcome("violsigs", sig)
		bestMu.Lock()
		b, ok := best[sig]
		if !ok || v.Size < b {
			best[sig] = v.Size
			js, _ := json.Marshal(map[string]any{"what": v.What, "replay": v.Replay})
			r.Outcome("violmin:"+sig, fmt.Sprintf("%08d|%s", v.Size, js))
		}
		bestMu.Unlock()
	}
}

// EmitViolations turns the merged (count, smallest replay) records into vlib violations.
// Call it in the parent just before Finish.
func EmitViolations(r *vlib.Run) {
	if r.IsWorker() {
		return
	}
	for _, sig := range r.Outcomes("violsigs") {
		ms := r.Outcomes("violmin:" + sig)
		if len(ms) == 0 {
			continue
		}
		sort.Strings(ms)
		m := ms[0]
		var rec struct {
			What   string `json:"what"`
			Replay any    `json:"replay"`
		}
		json.Unmarshal([]byte(m[strings.IndexByte(m, '|')+1:]), &rec)
		n := r.Get("viol:" + sig)
		for i := int64(0); i < n; i++ {
			r.Violation(sig, rec.What, rec.Replay)
		}
	}
}

// ---- hang containment ---------------------------------------------------------------------------

const hangMarker = "VERIF-HANG-EXIT "

type Guard struct {
	R       *vlib.Run
	Prop    string
	Timeout time.Duration
	HangCap int // after this many items with a hang of one kind in this worker, skip the kind

	hangs       map[string]int // persisted per worker across restarts
	hungNow     map[string]bool
	pendingExit bool
	item        int
}

func NewGuard(r *vlib.Run, prop string, timeout time.Duration, hangCap int) *Guard {
	g := &Guard{R: r, Prop: prop, Timeout: timeout, HangCap: hangCap, hangs: map[string]int{}, hungNow: map[string]bool{}}
	if b, err := os.ReadFile(g.stateFile()); err == nil {
		json.Unmarshal(b, &g.hangs)
	}
	return g
}

func (g *Guard) stateFile() string { return filepath.Join(g.R.Scratch, "hang-state.json") }

func (g *Guard) BeginItem(i int) {
	g.item = i
	g.hungNow = map[string]bool{}
}

const (
	Done = iota
	Hung
	Skipped
	Panicked
)

// Run runs f on its own goroutine. kind names the class of operation (known before running
// it); a kind that has hung in this item, or in HangCap earlier items of this worker, is
// skipped and counted instead.
func (g *Guard) Run(t *Tally, kind string, f func() (any, error)) (any, error, int) {
	if g.hungNow[kind] {
		t.Add("skipped-after-hang:"+kind, 1)
		t.Add("skipped-after-hang", 1)
		return nil, nil, Skipped
	}
	if g.hangs[kind] >= g.HangCap {
		t.Add("skipped-after-hang:"+kind, 1)
		t.Add("skipped-after-hang", 1)
		return nil, nil, Skipped
	}
	type res struct {
		v   any
		err error
		pan any
	}
	ch := make(chan res, 1)
	go func() {
		var out res
		defer func() {
			if p := recover(); p != nil {
				out.pan = p
			}
			ch <- out
		}()
		out.v, out.err = f()
	}()
	timer := time.NewTimer(g.Timeout)
	defer timer.Stop()
	select {
	case out := <-ch:
		if out.pan != nil {
			return nil, fmt.Errorf("panic: %v", out.pan), Panicked
		}
		return out.v, out.err, Done
	case <-timer.C:
		g.hungNow[kind] = true
		g.hangs[kind]++
		b, _ := json.Marshal(g.hangs)
		os.WriteFile(g.stateFile(), b, 0o644)
		g.pendingExit = true
		t.Add("hangs:"+kind, 1)
		t.Add("hangs", 1)
		return nil, nil, Hung
	}
}

// EndItem merges the item's tally. If an operation hung during the item the worker process
// exits here (killing the leaked spinner); the parent merges the dumped tally instead.
func (g *Guard) EndItem(t *Tally) {
	if !g.pendingExit || !g.R.IsWorker() {
		t.Apply(g.R)
		return
	}
	p := filepath.Join(g.R.Scratch, fmt.Sprintf("hang-item-%d.json", g.item))
	b, err := json.Marshal(t)
	if err != nil {
		vlib.Fatalf("tally: %v", err)
	}
	if err := os.WriteFile(p, b, 0o644); err != nil {
		vlib.Fatalf("tally: %v", err)
	}
	fmt.Fprintf(os.Stderr, "\n%s%s\n", hangMarker, p)
	os.Exit(3)
}

// OnCrash is the vlib OnCrash handler: it merges the tally of an item that ended with a
// deliberate hang exit, or reports a genuine crash of the worker process.
func (g *Guard) OnCrash(describe func(idx int) any) func(idx int, output string) {
	return func(idx int, output string) {
		if k := strings.LastIndex(output, hangMarker); k >= 0 {
			p := strings.TrimSpace(output[k+len(hangMarker):])
			if nl := strings.IndexByte(p, '\n'); nl >= 0 {
				p = p[:nl]
			}
			b, err := os.ReadFile(p)
			if err != nil {
				vlib.Fatalf("hang tally %s: %v", p, err)
			}
			t := NewTally()
			if err := json.Unmarshal(b, t); err != nil {
				vlib.Fatalf("hang tally %s: %v", p, err)
			}
			t.Apply(g.R)
			g.R.Add("worker-restarts-after-hang", 1)
			return
		}
		first := output
		if k := strings.Index(first, "\n"); k > 0 {
			first = first[:k]
		}
		if len(output) > 3000 {
			output = output[:3000]
		}
		g.R.Violation(g.Prop+":crash", fmt.Sprintf("worker process died on item %d: %s", idx, first), map[string]any{"item": describe(idx), "output": output})
	}
}
