package mvsfake

// A Family is the set of ALL universes over fixed projects x versions in which every
// (project, version) requires at most one version of each other project.

import (
	"sort"

	"golang.org/x/mod/semver"
)

type ProjectDef struct {
	Dir      string   `json:"dir"`
	Versions []string `json:"versions"` // ascending; all of one module path (one major, v0/v1 together)
	Name     string   `json:"name,omitempty"`
}

type Family struct {
	Name     string
	Addr     string
	Split    bool // every directory is its own repository (the project is the repository root)
	Projects []ProjectDef
	Reverse  bool // ReverseDecl of the generated universes
	// Stale: every checkout also contains a legacy .dawnconfig with a DIFFERENT requirement
	// list (each choice rotated by one: none -> first version -> ... -> last version -> none)
	// written before dawn.toml, plus two ordinary files after it.
	Stale bool
	Spell string // Universe.ReqSpelling of the generated universes

	nodes [][2]int // (project, version index)
	radix []int    // one digit per (node, other project)
	other [][]int  // per node: the other projects, in digit order
}

func (f *Family) init() {
	if f.nodes != nil {
		return
	}
	for pi, p := range f.Projects {
		if !sort.SliceIsSorted(p.Versions, func(a, b int) bool { return semver.Compare(p.Versions[a], p.Versions[b]) < 0 }) {
			panic("versions of " + p.Dir + " not ascending")
		}
		for vi := range p.Versions {
			f.nodes = append(f.nodes, [2]int{pi, vi})
		}
	}
	for _, n := range f.nodes {
		var o []int
		for pj := range f.Projects {
			if pj != n[0] {
				o = append(o, pj)
				f.radix = append(f.radix, len(f.Projects[pj].Versions)+1)
			}
		}
		f.other = append(f.other, o)
	}
}

// Path is the module path of project i.
func (f *Family) Path(i int) string {
	p := f.Projects[i]
	if f.Split {
		return ModPath(f.Addr+"/"+p.Dir, "", p.Versions[0])
	}
	return ModPath(f.Addr, p.Dir, p.Versions[0])
}

// Count is the number of universes.
func (f *Family) Count() int64 {
	f.init()
	n := int64(1)
	for _, r := range f.radix {
		n *= int64(r)
	}
	return n
}

// Universe decodes universe number idx (0 = no requirement edges at all).
func (f *Family) Universe(idx int64) *Universe {
	f.init()
	digits := make([]int, len(f.radix))
	for i := range f.radix {
		digits[i] = int(idx % int64(f.radix[i]))
		idx /= int64(f.radix[i])
	}
	u := &Universe{ReverseDecl: f.Reverse, ExtraFiles: f.Stale, ReqSpelling: f.Spell}
	repoIdx := map[string]int{}
	repoFor := func(dir string) (*RepoSpec, string) {
		addr, d := f.Addr, dir
		if f.Split {
			addr, d = f.Addr+"/"+dir, ""
		}
		i, ok := repoIdx[addr]
		if !ok {
			i = len(u.Repos)
			repoIdx[addr] = i
			u.Repos = append(u.Repos, RepoSpec{Addr: addr, Branches: map[string]int{}, Default: "main"})
		}
		return &u.Repos[i], d
	}
	// node requirements
	reqs := make([][]Req, len(f.nodes))
	stale := make([][]Req, len(f.nodes))
	d := 0
	for ni := range f.nodes {
		for _, pj := range f.other[ni] {
			if k := digits[d]; k > 0 {
				reqs[ni] = append(reqs[ni], Req{f.Path(pj), f.Projects[pj].Versions[k-1]})
			}
			if k := (digits[d] + 1) % f.radix[d]; k > 0 {
				stale[ni] = append(stale[ni], Req{f.Path(pj), f.Projects[pj].Versions[k-1]})
			}
			d++
		}
	}
	// history: version index ascending, then project order; one revision per node and repository
	maxV := 0
	for _, p := range f.Projects {
		if len(p.Versions) > maxV {
			maxV = len(p.Versions)
		}
	}
	for vi := 0; vi < maxV; vi++ {
		for ni, n := range f.nodes {
			if n[1] != vi {
				continue
			}
			p := f.Projects[n[0]]
			repo, dir := repoFor(p.Dir)
			repo.NRevs++
			tg := Tag{Dir: dir, Version: p.Versions[vi], Rev: repo.NRevs, Name: p.Name, Requires: reqs[ni]}
			if f.Stale {
				tg.HasStale, tg.Stale = true, stale[ni]
			}
			repo.Tags = append(repo.Tags, tg)
		}
	}
	for i := range u.Repos {
		u.Repos[i].Branches["main"] = u.Repos[i].NRevs
	}
	return u
}

// RootSets is every root requirement set with at most one version per project.
func (f *Family) RootSets() [][]Req {
	f.init()
	sets := [][]Req{nil}
	for pi, p := range f.Projects {
		var next [][]Req
		for _, s := range sets {
			next = append(next, s)
			for _, v := range p.Versions {
				next = append(next, append(append([]Req{}, s...), Req{f.Path(pi), v}))
			}
		}
		sets = next
	}
	return sets
}

// RootSetsDup is RootSets plus every root set in which exactly ONE project is required under
// two or three different names at different versions (every pair / triple of its versions),
// alone and together with every choice (absent or one version) for the other projects.
func (f *Family) RootSetsDup() [][]Req {
	sets := f.RootSets()
	for dp, p := range f.Projects {
		var multi [][]string
		n := len(p.Versions)
		for a := 0; a < n; a++ {
			for b := a + 1; b < n; b++ {
				multi = append(multi, []string{p.Versions[a], p.Versions[b]})
				for c := b + 1; c < n; c++ {
					multi = append(multi, []string{p.Versions[a], p.Versions[b], p.Versions[c]})
				}
			}
		}
		for _, vs := range multi {
			part := [][]Req{nil}
			for pi, q := range f.Projects {
				var next [][]Req
				for _, s := range part {
					if pi == dp {
						x := append([]Req{}, s...)
						for _, v := range vs {
							x = append(x, Req{f.Path(pi), v})
						}
						next = append(next, x)
						continue
					}
					next = append(next, s)
					for _, v := range q.Versions {
						next = append(next, append(append([]Req{}, s...), Req{f.Path(pi), v}))
					}
				}
				part = next
			}
			sets = append(sets, part...)
		}
	}
	return sets
}
