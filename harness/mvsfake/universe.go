// Package mvsfake is the shared part of the C10/C11 harnesses: a JSON-able description of a
// finite universe of repositories x projects x tagged versions x requirement edges, an
// immutable, thread-safe in-memory vcs.Repository built from it (it materialises dawn.toml
// files exactly like a checkout would), and an independent reference model of
// minimal-version selection and of dawn's version-query language.
package mvsfake

import (
	"context"
	"errors"
	"fmt"
	"iter"
	"os"
	"path"
	"path/filepath"
	"sort"
	"strings"
	"sync"
	"sync/atomic"
	"time"

	"github.com/pgavlin/dawn/internal/mvs"
	"github.com/pgavlin/dawn/internal/vcs"
	"golang.org/x/mod/module"
	"golang.org/x/mod/semver"
)

// Req is one requirement edge target / one selected module version.
type Req struct {
	Path    string `json:"path"`
	Version string `json:"version"`
}

func (r Req) String() string { return r.Path + "@" + r.Version }

// Tag is the content of one project directory from revision Rev on (until the next Tag of
// the same directory) and, if Version != "", a tag "<dir>/<version>" on that revision.
type Tag struct {
	Dir      string `json:"dir"`               // "" = the project is the repository root
	Version  string `json:"version,omitempty"` // "" = untagged content change
	Rev      int    `json:"rev"`               // 1-based index into the linear history
	Name     string `json:"name,omitempty"`    // the project's `name` in dawn.toml
	Requires []Req  `json:"requires"`
	// Stale, if HasStale, is the requirement list of a legacy ".dawnconfig" file that the
	// checkout still contains next to dawn.toml (dawn reads it only when dawn.toml is absent).
	HasStale bool  `json:"has_stale,omitempty"`
	Stale    []Req `json:"stale_dawnconfig_requires,omitempty"`
}

// RepoSpec is one repository: a linear history of NRevs revisions.
type RepoSpec struct {
	Addr     string         `json:"addr"`
	NRevs    int            `json:"nrevs"`
	Tags     []Tag          `json:"tags"`
	Branches map[string]int `json:"branches"`
	Default  string         `json:"default"`
}

// Universe is everything the resolver can see.
type Universe struct {
	Repos []RepoSpec `json:"repos"`
	// ReverseDecl writes every dawn.toml with requirement names whose sorted order is the
	// reverse of the declaration order, and lists equal-version tags in reverse order.
	ReverseDecl bool `json:"reverse_decl,omitempty"`
	// ReqSpelling spells every requirement path in every dawn.toml non-canonically but legally:
	// "major" = explicit @v1 on a v0/v1 path, "dot" = "./" before the last element,
	// "slash" = trailing slash. The graph is the same as with canonical spellings.
	ReqSpelling string `json:"requirement_path_spelling,omitempty"`
	// ExtraFiles adds ordinary files (BUILD.dawn, src/lib.txt) to every project checkout.
	ExtraFiles bool `json:"extra_files,omitempty"`
}

// Edges is the number of requirement edges (a size measure for minimal counterexamples).
func (u *Universe) Edges() int {
	n := 0
	for _, r := range u.Repos {
		for _, t := range r.Tags {
			n += len(t.Requires)
		}
	}
	return n
}

// Compact renders the universe as "path@version -> [requirements]" lines (for reports).
func (u *Universe) Compact() map[string]any {
	out := map[string]any{}
	for _, r := range u.Repos {
		tags := map[string]any{}
		for _, t := range r.Tags {
			rq := []string{}
			for _, q := range t.Requires {
				rq = append(rq, q.String())
			}
			key := fmt.Sprintf("rev%d %s", t.Rev, ModPath(r.Addr, t.Dir, t.Version))
			if t.Version == "" {
				key += " (untagged)"
			} else {
				key += "@" + t.Version
			}
			if t.Name != "" {
				key += " name=" + t.Name
			}
			tags[key] = rq
		}
		out[r.Addr] = map[string]any{"history": tags, "branches": r.Branches, "default": r.Default, "revisions": r.NRevs}
	}
	return out
}

// MajorSuffix is the path suffix of a version's major: "" for v0/v1, "v2", "v3", ...
func MajorSuffix(version string) string {
	m := semver.Major(version)
	if m == "v0" || m == "v1" {
		return ""
	}
	return m
}

// ModPath spells the module path of directory dir of repository addr at a version.
func ModPath(addr, dir, version string) string {
	p := addr
	if dir != "" {
		p = addr + "/" + dir
	}
	if m := MajorSuffix(version); m != "" {
		p += "@" + m
	}
	return p
}

// SplitMajor splits "example.com/c@v2" into "example.com/c", "v2".
func SplitMajor(p string) (string, string) {
	slash := strings.LastIndexByte(p, '/')
	if at := strings.LastIndexByte(p, '@'); at > slash {
		return p[:at], p[at+1:]
	}
	return p, ""
}

// ---- the fake repository --------------------------------------------------------------------

type outFile struct {
	rel  string
	data []byte
}

type file struct {
	name     string
	requires []Req
	toml     []byte
	out      []outFile // the checkout, in the order in which it is written
}

// Revision implements vcs.Revision.
type Revision struct {
	id     string
	idx    int // 1-based
	when   time.Time
	parent *Revision
	files  map[string]*file // dir -> content at this revision
}

func (r *Revision) ID() string       { return r.id }
func (r *Revision) PseudoID() string { return r.id[:12] }
func (r *Revision) When() time.Time  { return r.when }
func (r *Revision) Index() int       { return r.idx }
func (r *Revision) History() iter.Seq[vcs.Revision] {
	return func(yield func(vcs.Revision) bool) {
		for x := r; x != nil; x = x.parent {
			if !yield(x) {
				return
			}
		}
	}
}

// Repo implements vcs.Repository. It is immutable after Build except for its counters.
type Repo struct {
	spec     RepoSpec
	revs     []*Revision // revs[i] has index i+1
	refs     map[string]string
	versions []*vcs.Version

	hooks   *Hooks
	fetches atomic.Int64
	logMu   sync.Mutex
	log     []string // "<dir>@<rev index>" of every FetchRevision
}

func revID(repo, i int) string {
	// 40 hex digits, distinct in the first 12
	return fmt.Sprintf("%02x%02x", 0xa0+repo, i) + strings.Repeat(fmt.Sprintf("%02x", i), 18)
}

func (r *Repo) Path() string { return r.spec.Addr }

func (r *Repo) DefaultRef(ctx context.Context) (string, error) { return r.spec.Default, nil }

func (r *Repo) Versions(ctx context.Context) ([]*vcs.Version, error) { return r.versions, nil }

func (r *Repo) lookup(id string) *Revision {
	if len(id) < 12 {
		return nil
	}
	for _, rev := range r.revs {
		if strings.HasPrefix(rev.id, id) {
			return rev
		}
	}
	return nil
}

func (r *Repo) ResolveRef(ctx context.Context, ref string) (string, error) {
	if id, ok := r.refs[ref]; ok {
		return id, nil
	}
	if id, ok := r.refs["refs/heads/"+ref]; ok {
		return id, nil
	}
	if id, ok := r.refs["refs/tags/"+ref]; ok {
		return id, nil
	}
	if rev := r.lookup(ref); rev != nil {
		return rev.id, nil
	}
	return "", fmt.Errorf("unknown revision %q", ref)
}

func (r *Repo) GetRevision(ctx context.Context, id string) (vcs.Revision, error) {
	if rev := r.lookup(id); rev != nil {
		return rev, nil
	}
	return nil, fmt.Errorf("invalid revision %q", id)
}

func cleanDir(p string) string {
	p = path.Clean(p)
	if p == "." || p == "/" {
		return ""
	}
	return p
}

func (r *Repo) FetchRevision(ctx context.Context, projectPath string, revision vcs.Revision, destDir string) error {
	rev, ok := revision.(*Revision)
	if !ok {
		return errors.New("foreign revision")
	}
	dir := cleanDir(projectPath)
	f, ok := rev.files[dir]
	if !ok {
		return fmt.Errorf("no project %q at revision %v", dir, rev.idx)
	}
	r.fetches.Add(1)
	r.logMu.Lock()
	r.log = append(r.log, fmt.Sprintf("%s@%d", dir, rev.idx))
	r.logMu.Unlock()
	projectDir := filepath.Join(destDir, filepath.FromSlash(dir))
	if err := os.MkdirAll(projectDir, 0o700); err != nil {
		return err
	}
	// a checkout is not atomic: the files appear one at a time, in a fixed order
	h := r.hooks
	for i := 0; ; i++ {
		if h != nil {
			n := int(h.written.Load()) // files written so far by this world
			if h.DieAfterFiles >= 0 && n == h.DieAfterFiles {
				os.Exit(DieExitCode) // process death: nothing deferred runs, files so far persist
			}
			if h.ParkKey != "" {
				// park the first checkout of one particular (directory, revision)
				if h.ParkAfterFiles == i && h.ParkKey == r.spec.Addr+"/"+fmt.Sprintf("%s@%d", dir, rev.idx) && h.parkOnce.CompareAndSwap(false, true) {
					h.Parked <- struct{}{}
					<-h.Release
				}
			} else if h.ParkAfterFiles >= 0 && n == h.ParkAfterFiles && h.parkOnce.CompareAndSwap(false, true) {
				h.Parked <- struct{}{}
				<-h.Release
			}
		}
		if i == len(f.out) {
			break
		}
		p := filepath.Join(projectDir, filepath.FromSlash(f.out[i].rel))
		if err := os.MkdirAll(filepath.Dir(p), 0o700); err != nil {
			return err
		}
		if err := os.WriteFile(p, f.out[i].data, 0o600); err != nil {
			return err
		}
		if h != nil {
			h.written.Add(1)
		}
	}
	return nil
}

// DieExitCode is the exit status of a process killed by the DieAfterFiles hook.
const DieExitCode = 7

// Hooks interrupt checkouts. They are set before the world is used and never change.
type Hooks struct {
	// DieAfterFiles >= 0: the process dies (os.Exit) when exactly that many files have been
	// written by FetchRevision calls of this world (0 = after the directory was created).
	DieAfterFiles int
	// ParkAfterFiles >= 0: the first checkout that reaches that many written files signals
	// Parked and waits for Release before it continues.
	ParkAfterFiles int
	// ParkKey != "": only the first checkout with this FetchKey parks, after ParkAfterFiles of
	// ITS files.
	ParkKey string
	Parked  chan struct{}
	Release chan struct{}

	written  atomic.Int64
	parkOnce atomic.Bool
}

// SetHooks installs checkout hooks on every repository of the world.
func (w *World) SetHooks(h *Hooks) {
	for _, r := range w.order {
		r.hooks = h
	}
}

// CheckoutFiles is the number of files of the checkout of a tagged module version.
func (w *World) CheckoutFiles(m Req) int {
	if t := w.tags[m.Path][m.Version]; t != nil {
		return len(t.rev.files[t.tag.Dir].out)
	}
	return 0
}

// SpellPath spells a module path non-canonically (see Universe.ReqSpelling).
func SpellPath(p, mode string) string {
	base, major := SplitMajor(p)
	suffix := ""
	if major != "" {
		suffix = "@" + major
	}
	switch mode {
	case "major":
		if major == "" {
			return base + "@v1"
		}
	case "dot":
		if k := strings.LastIndexByte(base, '/'); k > 0 {
			return base[:k] + "/./" + base[k+1:] + suffix
		}
	case "slash":
		return base + "/" + suffix
	}
	return p
}

func renderTOML(name, version string, reqs []Req, reverse bool) []byte {
	return RenderTOML(name, version, reqs, reverse, "")
}

// RenderTOML writes a dawn.toml.
func RenderTOML(name, version string, reqs []Req, reverse bool, spelling string) []byte {
	var b strings.Builder
	if name != "" {
		fmt.Fprintf(&b, "name = %q\n", name)
	}
	if version != "" {
		fmt.Fprintf(&b, "version = %q\n", version)
	}
	if len(reqs) > 0 {
		b.WriteString("\n[requirements]\n")
		for i, q := range reqs {
			n := i
			if reverse {
				n = len(reqs) - 1 - i
			}
			fmt.Fprintf(&b, "r%d = {path = %q, version = %q}\n", n, SpellPath(q.Path, spelling), q.Version)
		}
	}
	return []byte(b.String())
}

// ---- the world: all repositories plus indexes for the reference model ---------------------

type tagRef struct {
	repo *Repo
	tag  *Tag
	rev  *Revision
}

type World struct {
	U     *Universe
	repos map[string]*Repo
	order []*Repo
	tags  map[string]map[string]*tagRef // module path -> version -> tag
	paths []string                      // module paths that have at least one tag or any content
	dials atomic.Int64
}

// Build constructs the immutable repositories of a universe.
func Build(u *Universe) *World {
	w := &World{U: u, repos: map[string]*Repo{}, tags: map[string]map[string]*tagRef{}}
	seenPath := map[string]bool{}
	for ri := range u.Repos {
		spec := u.Repos[ri]
		repo := &Repo{spec: spec, refs: map[string]string{}}
		var parent *Revision
		for i := 1; i <= spec.NRevs; i++ {
			rev := &Revision{id: revID(ri, i), idx: i, when: time.Unix(1_000_000_000+int64(i)*3600, 0).UTC(), parent: parent, files: map[string]*file{}}
			if parent != nil {
				for d, f := range parent.files {
					rev.files[d] = f
				}
			}
			for ti := range spec.Tags {
				t := &spec.Tags[ti]
				if t.Rev != i {
					continue
				}
				f := &file{name: t.Name, requires: t.Requires, toml: RenderTOML(t.Name, t.Version, t.Requires, u.ReverseDecl, u.ReqSpelling)}
				if t.HasStale {
					f.out = append(f.out, outFile{".dawnconfig", renderTOML(t.Name, "", t.Stale, u.ReverseDecl)})
				}
				f.out = append(f.out, outFile{"dawn.toml", f.toml})
				if u.ExtraFiles {
					f.out = append(f.out, outFile{"BUILD.dawn", []byte("# targets of " + t.Dir + "\n")}, outFile{"src/lib.txt", []byte(t.Version + "\n")})
				}
				rev.files[t.Dir] = f
			}
			repo.revs = append(repo.revs, rev)
			parent = rev
		}
		names := make([]int, 0, len(spec.Tags))
		for ti := range spec.Tags {
			names = append(names, ti)
		}
		tagName := func(t *Tag) string {
			if t.Dir == "" {
				return t.Version
			}
			return t.Dir + "/" + t.Version
		}
		// the order in which a git server lists refs: by name
		sort.SliceStable(names, func(a, b int) bool { return tagName(&spec.Tags[names[a]]) < tagName(&spec.Tags[names[b]]) })
		if u.ReverseDecl {
			for i, j := 0, len(names)-1; i < j; i, j = i+1, j-1 {
				names[i], names[j] = names[j], names[i]
			}
		}
		for _, ti := range names {
			t := &spec.Tags[ti]
			if t.Rev < 1 || t.Rev > spec.NRevs {
				panic(fmt.Sprintf("tag %v outside history", *t))
			}
			rev := repo.revs[t.Rev-1]
			mp := ModPath(spec.Addr, t.Dir, t.Version)
			if !seenPath[mp] {
				seenPath[mp] = true
				w.paths = append(w.paths, mp)
			}
			if t.Version == "" {
				continue
			}
			// like a git server, any tag <dir>/<valid semver> is a version, canonical or not
			// (v1.2, v1.2.0+hotfix)
			if !semver.IsValid(t.Version) {
				panic("invalid version " + t.Version)
			}
			repo.refs["refs/tags/"+tagName(t)] = rev.id
			pp := t.Dir
			if pp == "" {
				pp = "."
			}
			repo.versions = append(repo.versions, &vcs.Version{Version: module.Version{Path: mp, Version: t.Version}, ProjectPath: pp, RevisionID: rev.id})
			if w.tags[mp] == nil {
				w.tags[mp] = map[string]*tagRef{}
			}
			if w.tags[mp][t.Version] != nil {
				panic("duplicate tag " + mp + "@" + t.Version)
			}
			w.tags[mp][t.Version] = &tagRef{repo, t, rev}
		}
		sort.SliceStable(repo.versions, func(a, b int) bool {
			return semver.Compare(repo.versions[a].Version.Version, repo.versions[b].Version.Version) < 0
		})
		for b, i := range spec.Branches {
			repo.refs["refs/heads/"+b] = repo.revs[i-1].id
		}
		if _, ok := spec.Branches[spec.Default]; !ok {
			panic("default branch missing")
		}
		repo.refs["HEAD"] = repo.revs[spec.Branches[spec.Default]-1].id
		w.repos[spec.Addr] = repo
		w.order = append(w.order, repo)
	}
	sort.Strings(w.paths)
	return w
}

// Dialer is the fake network.
func (w *World) Dialer() mvs.Dialer {
	return mvs.VerifDialFunc(func(ctx context.Context, kind, address string) (vcs.Repository, error) {
		w.dials.Add(1)
		if kind != "git" {
			return nil, fmt.Errorf("unsupported VCS kind %v", kind)
		}
		if r, ok := w.repos[address]; ok {
			return r, nil
		}
		return nil, errors.New("unreachable")
	})
}

// Fetches is the total number of project downloads so far.
func (w *World) Fetches() int64 {
	n := int64(0)
	for _, r := range w.order {
		n += r.fetches.Load()
	}
	return n
}

// TakeFetchLog returns and clears the list of downloaded "<module dir path>@<rev>" keys.
func (w *World) TakeFetchLog() []string {
	var out []string
	for _, r := range w.order {
		r.logMu.Lock()
		for _, l := range r.log {
			out = append(out, r.spec.Addr+"/"+l)
		}
		r.log = nil
		r.logMu.Unlock()
	}
	return out
}

// FetchKey is the fetch-log key of a module version (tagged, or a pseudo-version).
func (w *World) FetchKey(m Req) string {
	if t := w.tags[m.Path][m.Version]; t != nil {
		return fmt.Sprintf("%s/%s@%d", t.repo.spec.Addr, t.tag.Dir, t.rev.idx)
	}
	if module.IsPseudoVersion(m.Version) {
		if id, err := module.PseudoVersionRev(m.Version); err == nil {
			if repo, dir := w.repoOf(m.Path); repo != nil {
				if rev := repo.lookup(id); rev != nil {
					return fmt.Sprintf("%s/%s@%d", repo.spec.Addr, dir, rev.idx)
				}
			}
		}
	}
	return "?"
}

// VersionAt is the version that names directory content at a revision: the tag sitting on
// it, else the pseudo-version (on the closest tagged ancestor) of that revision.
func (w *World) VersionAt(p string, rev int) string {
	repo, _ := w.repoOf(p)
	if repo == nil || rev < 1 || rev > len(repo.revs) {
		return ""
	}
	return w.refVersion(p, repo.revs[rev-1])
}

// Paths lists all module paths of the universe (sorted).
func (w *World) Paths() []string { return w.paths }

// repoOf finds the repository and directory of a module path (major suffix removed).
func (w *World) repoOf(p string) (*Repo, string) {
	base, _ := SplitMajor(p)
	for _, r := range w.order {
		if base == r.spec.Addr {
			return r, ""
		}
		if strings.HasPrefix(base, r.spec.Addr+"/") {
			return r, base[len(r.spec.Addr)+1:]
		}
	}
	return nil, ""
}

// Repo returns the repository that hosts a module path.
func (w *World) Repo(p string) *Repo { r, _ := w.repoOf(p); return r }

// Head returns the revision a branch points to.
func (r *Repo) Branch(name string) *Revision {
	if i, ok := r.spec.Branches[name]; ok {
		return r.revs[i-1]
	}
	return nil
}

func (r *Repo) Rev(i int) *Revision { return r.revs[i-1] }
func (r *Repo) Spec() *RepoSpec     { return &r.spec }
