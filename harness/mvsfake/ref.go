package mvsfake

// The reference model: plain reachability + maximum for build lists, and a direct
// transcription of the documented query language (go-get style) for version queries.
// Nothing here calls into dawn's mvs package or the third-party mvs library.

import (
	"fmt"
	"sort"
	"strings"

	"golang.org/x/mod/module"
	"golang.org/x/mod/semver"
)

// Requires returns the requirement edges of path@version: the dawn.toml content at the tagged
// revision, or, for a pseudo-version, at the revision it names.
func (w *World) Requires(m Req) ([]Req, bool) {
	if t := w.tags[m.Path][m.Version]; t != nil {
		return t.tag.Requires, true
	}
	if module.IsPseudoVersion(m.Version) {
		rev, err := module.PseudoVersionRev(m.Version)
		if err != nil {
			return nil, false
		}
		repo, dir := w.repoOf(m.Path)
		if repo == nil {
			return nil, false
		}
		r := repo.lookup(rev)
		if r == nil {
			return nil, false
		}
		f, ok := r.files[dir]
		if !ok {
			return nil, false
		}
		return f.requires, true
	}
	return nil, false
}

// ProjectName is the `name` a project declares at path@version.
func (w *World) ProjectName(m Req) string {
	if t := w.tags[m.Path][m.Version]; t != nil {
		return t.tag.Name
	}
	if module.IsPseudoVersion(m.Version) {
		if rev, err := module.PseudoVersionRev(m.Version); err == nil {
			if repo, dir := w.repoOf(m.Path); repo != nil {
				if r := repo.lookup(rev); r != nil {
					if f, ok := r.files[dir]; ok {
						return f.name
					}
				}
			}
		}
	}
	return ""
}

// TagRev is the 1-based revision index a version is tagged on (0 = no such tag).
func (w *World) TagRev(p, v string) int {
	if t := w.tags[p][v]; t != nil {
		return t.rev.idx
	}
	return 0
}

// TaggedVersions lists the tagged versions of a module path in ascending semver order.
func (w *World) TaggedVersions(p string) []string {
	var vs []string
	for v := range w.tags[p] {
		vs = append(vs, v)
	}
	sort.Slice(vs, func(i, j int) bool { return semver.Compare(vs[i], vs[j]) < 0 })
	return vs
}

// BuildInfo is the reference answer for one root requirement set.
type BuildInfo struct {
	List     map[string]string // path -> selected version
	Reach    map[Req]bool      // every (path, version) reachable through requirement edges
	OK       bool              // false: some reachable node does not exist in the universe
	Conflict bool              // some path is reachable at two or more versions
	Cycle    bool              // the reachable node graph has a cycle
	// Invalid: some reachable dawn.toml names a requirement version that is not a canonical
	// semantic version (build metadata, short form, leading zeros): the configuration loader
	// rejects such a file, so the resolution must fail
	Invalid bool
}

// RefBuildList is breadth-first reachability over (path, version) edges from the roots,
// then the semver maximum per path.
func (w *World) RefBuildList(roots []Req) *BuildInfo {
	bi := &BuildInfo{List: map[string]string{}, Reach: map[Req]bool{}, OK: true}
	queue := append([]Req{}, roots...)
	for _, r := range roots {
		bi.Reach[r] = true
	}
	for len(queue) > 0 {
		m := queue[0]
		queue = queue[1:]
		if cur, ok := bi.List[m.Path]; !ok {
			bi.List[m.Path] = m.Version
		} else {
			if cur != m.Version {
				bi.Conflict = true
			}
			if semver.Compare(m.Version, cur) > 0 {
				bi.List[m.Path] = m.Version
			}
		}
		reqs, ok := w.Requires(m)
		if !ok {
			bi.OK = false
			continue
		}
		for _, q := range reqs {
			if !semver.IsValid(q.Version) || semver.Canonical(q.Version) != q.Version {
				bi.Invalid = true
			}
		}
		for _, q := range reqs {
			if !bi.Reach[q] {
				bi.Reach[q] = true
				queue = append(queue, q)
			}
		}
	}
	// cycle detection on the reachable node graph
	color := map[Req]int{}
	var dfs func(m Req) bool
	dfs = func(m Req) bool {
		color[m] = 1
		reqs, _ := w.Requires(m)
		for _, q := range reqs {
			switch color[q] {
			case 1:
				return true
			case 0:
				if dfs(q) {
					return true
				}
			}
		}
		color[m] = 2
		return false
	}
	for m := range bi.Reach {
		if color[m] == 0 && dfs(m) {
			bi.Cycle = true
			break
		}
	}
	return bi
}

// ---- queries ----------------------------------------------------------------------------------

// Query is a structured `dawn get` argument.
type Query struct {
	Path string `json:"path"` // module path including a "@vN" major suffix
	Kind string `json:"kind"` // none latest upgrade patch exact prefix gt gte lt lte branch rev
	Arg  string `json:"arg,omitempty"`
}

// String spells the query the way the command line does.
func (q Query) String() string {
	switch q.Kind {
	case "none":
		return q.Path
	case "latest", "upgrade", "patch":
		return q.Path + "@" + q.Kind
	case "exact", "prefix", "branch", "rev":
		return q.Path + "@" + q.Arg
	case "gt":
		return q.Path + "@>" + q.Arg
	case "gte":
		return q.Path + "@>=" + q.Arg
	case "lt":
		return q.Path + "@<" + q.Arg
	case "lte":
		return q.Path + "@<=" + q.Arg
	}
	panic("bad query kind " + q.Kind)
}

func isRelease(v string) bool { return semver.Prerelease(v) == "" }

func highest(vs []string, accept func(string) bool) string {
	best := ""
	for _, v := range vs {
		if accept(v) && (best == "" || semver.Compare(v, best) > 0) {
			best = v
		}
	}
	return best
}

// latest: highest release, else highest pre-release, else pseudo-version of the default head.
func (w *World) latest(p string) string {
	vs := w.TaggedVersions(p)
	if v := highest(vs, isRelease); v != "" {
		return v
	}
	if v := highest(vs, func(string) bool { return true }); v != "" {
		return v
	}
	repo, _ := w.repoOf(p)
	if repo == nil {
		return ""
	}
	return w.refVersion(p, repo.Branch(repo.spec.Default))
}

// refVersion: the tag sitting exactly on the revision, else a pseudo-version on the closest
// tagged ancestor (tags of this module path only). "" if the project does not exist there.
func (w *World) refVersion(p string, rev *Revision) string {
	v, _ := w.refVersionBase(p, rev)
	return v
}

// refVersionBase also reports whether the version is a pseudo-version without any tagged
// ancestor (its spelling, vN.0.0-<time>-<rev>, is then the only thing that identifies it).
func (w *World) refVersionBase(p string, rev *Revision) (string, bool) {
	if rev == nil {
		return "", false
	}
	if _, dir := w.repoOf(p); rev.files[dir] == nil {
		return "", false
	}
	_, major := SplitMajor(p)
	tagsAt := func(r *Revision) string {
		return highest(w.TaggedVersions(p), func(v string) bool { return w.tags[p][v].rev == r })
	}
	if v := tagsAt(rev); v != "" {
		return v, false
	}
	base := ""
	for a := rev.parent; a != nil; a = a.parent {
		if v := tagsAt(a); v != "" {
			base = v
			break
		}
	}
	return module.PseudoVersion(major, base, rev.when, rev.PseudoID()), base == ""
}

// SameUntaggedRevision reports whether got is an acceptable spelling of want, where want is
// the reference answer of a branch/revision query: identical, or - when the revision has no
// tagged ancestor at all - any pseudo-version of the same major that names the same revision.
func (w *World) SameUntaggedRevision(q Query, want, got string) bool {
	if want == got {
		return true
	}
	if q.Kind != "branch" && q.Kind != "rev" {
		return false
	}
	rev := w.RefRevision(q.Path, q.Arg)
	if _, nobase := w.refVersionBase(q.Path, rev); !nobase {
		return false
	}
	if !module.IsPseudoVersion(got) || semver.Major(got) != semver.Major(want) {
		return false
	}
	r1, err1 := module.PseudoVersionRev(got)
	r2, err2 := module.PseudoVersionRev(want)
	return err1 == nil && err2 == nil && r1 == r2
}

// OldestAncestorVersion is the answer a resolver gives that bases the pseudo-version on the
// OLDEST tagged ancestor (used only to name the cause of a mismatch).
func (w *World) OldestAncestorVersion(p string, rev *Revision) string {
	_, major := SplitMajor(p)
	base := ""
	var baseRev *Revision
	for a := rev; a != nil; a = a.parent {
		if v := highest(w.TaggedVersions(p), func(v string) bool { return w.tags[p][v].rev == a }); v != "" {
			base, baseRev = v, a
		}
	}
	if baseRev == rev {
		return base
	}
	return module.PseudoVersion(major, base, rev.when, rev.PseudoID())
}

// RefRevision resolves a branch name or revision id of the repository hosting p.
func (w *World) RefRevision(p, ref string) *Revision {
	repo, _ := w.repoOf(p)
	if repo == nil {
		return nil
	}
	if r := repo.Branch(ref); r != nil {
		return r
	}
	return repo.lookup(ref)
}

// Resolve computes the version a query stands for, given the current build list.
// ok=false: no version satisfies the query (the operation is expected to fail).
func (w *World) Resolve(q Query, current map[string]string) (string, bool) {
	vs := w.TaggedVersions(q.Path)
	cur, has := current[q.Path]
	switch q.Kind {
	case "none", "latest":
		v := w.latest(q.Path)
		return v, v != ""
	case "upgrade":
		v := w.latest(q.Path)
		if v == "" {
			return "", false
		}
		if has && semver.Compare(cur, v) > 0 {
			return cur, true
		}
		return v, true
	case "patch":
		if !has {
			v := w.latest(q.Path)
			return v, v != ""
		}
		mm := semver.MajorMinor(cur)
		v := highest(vs, func(v string) bool { return isRelease(v) && semver.MajorMinor(v) == mm })
		if v == "" || semver.Compare(cur, v) > 0 {
			return cur, true
		}
		return v, true
	case "exact":
		if w.tags[q.Path][q.Arg] != nil {
			return q.Arg, true
		}
		return "", false
	case "prefix":
		// "path@vX" / "path@vX.Y" is a semver range query (query.go: "parses as a semver range
		// query"): the highest version of that major that is at least vX.Y.0. The property does not
		// fix a narrower meaning, so none is demanded here.
		canon := semver.Canonical(q.Arg)
		v := highest(vs, func(v string) bool { return semver.Compare(canon, v) <= 0 })
		return v, v != ""
	case "gt":
		v := highest(vs, func(v string) bool { return semver.Compare(v, q.Arg) > 0 })
		return v, v != ""
	case "gte":
		v := highest(vs, func(v string) bool { return semver.Compare(v, q.Arg) >= 0 })
		return v, v != ""
	case "lt":
		v := highest(vs, func(v string) bool { return semver.Compare(v, q.Arg) < 0 })
		return v, v != ""
	case "lte":
		v := highest(vs, func(v string) bool { return semver.Compare(v, q.Arg) <= 0 })
		return v, v != ""
	case "branch", "rev":
		rev := w.RefRevision(q.Path, q.Arg)
		if rev == nil {
			return "", false
		}
		v := w.refVersion(q.Path, rev)
		return v, v != ""
	}
	panic("bad query kind " + q.Kind)
}

// UpgradeTarget is the version "upgrade everything" stands for, for one project.
func (w *World) UpgradeTarget(p, cur string) string {
	// "upgrade all" keeps every project on its major version line (v0 and v1 are different
	// lines for this purpose although they share a path): the least that must be reached is the
	// highest release with the same semver major.
	major := semver.Major(cur)
	v := highest(w.TaggedVersions(p), func(v string) bool { return isRelease(v) && semver.Major(v) == major })
	if v == "" || semver.Compare(cur, v) > 0 {
		return cur
	}
	return v
}

// DowngradeNeedsDrop reports whether lowering p to v (MVS algorithm 4: exclude every version
// that transitively requires something above the cap) leaves some project of the build list
// without any admissible version at or below its current one, so that it has to be dropped.
// It only labels operation kinds; no verdict depends on it.
func (w *World) DowngradeNeedsDrop(bl map[string]string, p, v string) bool {
	cap := map[string]string{}
	for k, x := range bl {
		cap[k] = x
	}
	cap[p] = v
	// excluded: m can reach, through requirement edges, a version above the cap (or a
	// version that does not exist)
	excluded := func(m Req) bool {
		seen := map[Req]bool{}
		var dfs func(x Req) bool
		dfs = func(x Req) bool {
			if c, ok := cap[x.Path]; ok && semver.Compare(x.Version, c) > 0 {
				return true
			}
			if seen[x] {
				return false
			}
			seen[x] = true
			reqs, ok := w.Requires(x)
			if !ok {
				return true
			}
			for _, q := range reqs {
				if dfs(q) {
					return true
				}
			}
			return false
		}
		return dfs(m)
	}
	for q, curv := range bl {
		limit := curv
		if q == p {
			limit = v
		}
		cands := append([]string{}, w.TaggedVersions(q)...)
		cands = append(cands, limit)
		okAny := false
		for _, c := range cands {
			if semver.Compare(c, limit) <= 0 && semver.Major(c) == semver.Major(curv) && !excluded(Req{q, c}) {
				okAny = true
				break
			}
		}
		if !okAny {
			return true
		}
	}
	return false
}

// FormatList renders a build list deterministically.
func FormatList(m map[string]string) string {
	var ks []string
	for k := range m {
		ks = append(ks, k)
	}
	sort.Strings(ks)
	var b strings.Builder
	for i, k := range ks {
		if i > 0 {
			b.WriteByte(' ')
		}
		fmt.Fprintf(&b, "%s@%s", k, m[k])
	}
	return "[" + b.String() + "]"
}
