// C15 — decoding arbitrary bytes yields a value or an error, never a crash.
// (a) every byte string up to a length bound (all 256 values to length 3, reduced alphabets
//
//	beyond) through the real Decoder, with no unpickler and with dawn's environment unpickler;
//
// (b) every single-byte substitution / truncation / deletion / insertion of valid encodings,
//
//	including real function-environment pickles;
//
// (c,d) corrupted record files through Load/Run: see recordfaults.go.
package main

import (
	"sort"
	"sync/atomic"
	"sync"
	"bytes"
	"encoding/hex"
	"flag"
	"fmt"
	"io"
	"os"
	"os/exec"
	"strings"
	"time"

	dawn "github.com/pgavlin/dawn"
	"github.com/pgavlin/dawn/internal/verif/vlib"
	"github.com/pgavlin/dawn/pickle"
	"go.starlark.net/starlark"
)

type countingReader struct {
	b     []byte
	reads int
}

func (r *countingReader) Read(p []byte) (int, error) {
	r.reads++
	if len(r.b) == 0 {
		return 0, io.EOF
	}
	n := copy(p, r.b)
	r.b = r.b[n:]
	return n, nil
}

// declaredTooLong implements the property's precondition conservatively: an input is outside
// the quantifier if at any offset a 4-byte-length opcode is followed by a length larger than
// the input.
func declaredTooLong(in []byte) bool {
	for i := 0; i+4 < len(in); i++ {
		if in[i] == 'X' || in[i] == 'B' {
			n := uint32(in[i+1]) | uint32(in[i+2])<<8 | uint32(in[i+3])<<16 | uint32(in[i+4])<<24
			if int64(n) > int64(len(in)) {
				return true
			}
		}
	}
	return false
}

// decodeOne returns "" if the decoder behaved, else "sig|description".
func decodeOne(in []byte, env bool) (verdict string, class string) {
	var un pickle.Unpickler
	if env {
		un = pickle.UnpicklerFunc(dawn.VerifEnvUnpickler)
	}
	rd := &countingReader{b: in}
	var v starlark.Value
	var err error
	var pan any
	func() {
		defer func() { pan = recover() }()
		v, err = pickle.NewDecoder(rd, un).Decode()
	}()
	if pan != nil {
		return fmt.Sprintf("decode-panic|Decode panicked: %v", pan), "panic"
	}
	if rd.reads > 4*len(in)+16 {
		return fmt.Sprintf("decode-excess-reads|%d reads for %d bytes", rd.reads, len(in)), "reads"
	}
	if err != nil {
		return "", "error"
	}
	if v == nil {
		return "decode-nil-nil|Decode returned (nil, nil)", "nilnil"
	}
	// the value must be usable
	func() {
		defer func() { pan = recover() }()
		_ = v.String()
		_ = v.Type()
		v.Hash()
		starlark.EqualDepth(v, v, 50)
		v.Truth()
		v.Freeze()
	}()
	if pan != nil {
		return fmt.Sprintf("decoded-value-unusable|using the decoded value panicked: %v", pan), "unusable"
	}
	return "", "value:" + v.Type()
}

var opcodes = []byte{'(', '.', 'N', 0x88, 0x89, 'I', 'K', 'M', 'J', 'G', 0x8c, 'X', 'C', 'B', ']', 'a', 'e', ')', 0x85, 0x86, 0x87, 't', '}', 'u', 0x8f, 0x90, 0x93, 0x81, 0x94, 'h', 'j'}

type replay struct {
	InputHex string `json:"input_hex"`
	Env      bool   `json:"env_unpickler"`
	Source   string `json:"source"`
	Verdict  string `json:"verdict"`
}

// acc accumulates counters locally (one per goroutine) to keep the hot loop lock-free.
type acc struct {
	r       *vlib.Run
	decodes int64
	skipped int64
	classes map[string]bool
}

func newAcc(r *vlib.Run) *acc { return &acc{r: r, classes: map[string]bool{}} }

func (a *acc) flush() {
	a.r.Add("decodes", a.decodes)
	a.r.Add("skipped_precondition", a.skipped)
	for c := range a.classes {
		a.r.Outcome("classes", c)
	}
}

// inFlight holds the inputs being decoded right now (one slot per accumulator); the watchdog
// started in main reports them if no decode completes for a minute: a decoder that does not
// return cannot be interrupted in-process, so the check ends there with that violation.
var (
	inFlight   sync.Map // *acc -> string (hex input + source)
	decodeTick atomic.Int64
)

func decodeWatchdog(r *vlib.Run) {
	go func() {
		last, idle := int64(-1), 0
		for {
			time.Sleep(5 * time.Second)
			cur := decodeTick.Load()
			busy := false
			inFlight.Range(func(_, _ any) bool { busy = true; return false })
			if cur != last || !busy {
				last, idle = cur, 0
				continue
			}
			if idle++; idle < 12 {
				continue
			}
			var stuck []string
			inFlight.Range(func(_, v any) bool { stuck = append(stuck, v.(string)); return true })
			sort.Strings(stuck)
			r.Violation("C15:decode-hang", fmt.Sprintf("Decode has not returned for 60 s on input %s (and %d more in flight)", stuck[0], len(stuck)-1), map[string]any{"inputs_in_flight": stuck})
			r.Finish(vlib.Coverage{Evaluations: cur, DistinctNontrivial: cur, States: cur, Transitions: cur, Rule: "stopped by the hang watchdog: a decode did not return", Exhaustive: false})
		}
	}()
}

func check(a *acc, in []byte, source string) {
	r := a.r
	if declaredTooLong(in) {
		a.skipped++
		return
	}
	for _, env := range []bool{false, true} {
		inFlight.Store(a, fmt.Sprintf("%x (%s, env unpickler=%v)", in, source, env))
		verdict, class := decodeOne(in, env)
		inFlight.Delete(a)
		decodeTick.Add(1)
		a.decodes++
		if env {
			class = "env/" + class
		}
		a.classes[class] = true
		if verdict != "" {
			p := strings.SplitN(verdict, "|", 2)
			r.Violation("C15:"+p[0], fmt.Sprintf("%s on input %x (%s, env unpickler=%v)", p[1], in, source, env), replay{fmt.Sprintf("%x", in), env, source, verdict})
		}
	}
}

// validEncodings returns real encodings: plain values and function environments.
func validEncodings() map[string][]byte {
	out := map[string][]byte{}
	enc := func(name string, v starlark.Value, env bool) {
		var buf bytes.Buffer
		var p pickle.Pickler
		if env {
			p = pickle.PicklerFunc(dawn.VerifEnvPickler)
		}
		if err := pickle.NewEncoder(&buf, p).Encode(v); err != nil {
			vlib.Fatalf("encoding %s: %v", name, err)
		}
		out[name] = buf.Bytes()
	}
	l := starlark.NewList([]starlark.Value{starlark.MakeInt(1), starlark.String("two"), starlark.Tuple{starlark.None, starlark.True}})
	l.Append(l)
	enc("cyclic list", l, false)
	d := starlark.NewDict(2)
	d.SetKey(starlark.String("k"), starlark.MakeInt(300))
	d.SetKey(starlark.MakeInt(70000), starlark.Float(1.5))
	enc("dict", d, false)
	s := starlark.NewSet(2)
	s.Insert(starlark.String("a"))
	s.Insert(starlark.Bytes("b"))
	enc("set", s, false)
	enc("tuple5", starlark.Tuple{starlark.MakeInt(-1), starlark.String(strings.Repeat("x", 300)), starlark.MakeInt(1 << 40), starlark.False, starlark.Tuple{}}, false)
	src := `
K = 300
G = {"a": [1, 2, 3], "b": (4, "five")}
def helper(x, y=[K]):
    return x + K
def make(n):
    def inner(z):
        return z + n + len(G)
    return inner
closure = make(7)
def f(t, d=("dflt", 1.5)):
    """doc"""
    print(helper(1), closure(2), d, G["a"], len("s"), package)
`
	th := &starlark.Thread{Name: "c15"}
	globals, err := starlark.ExecFile(th, "c15.star", src, starlark.StringDict{"package": starlark.String("//p")})
	if err != nil {
		vlib.Fatalf("exec: %v", err)
	}
	enc("function env f", globals["f"], true)
	enc("function env closure", globals["closure"], true)
	return out
}

var fTower = flag.String("tower", "", "internal: decode a shared-tuple tower (kind:levels) and exit")

// towerInput builds a pickle of 6 bytes per level: t0 = (1, 1), t(i+1) = (ti, ti) with both
// elements the SAME memoised tuple, and finally uses the top tuple as a dict key / set element /
// plain value. The input is tiny and acyclic; the value it denotes is a DAG whose unfolding has
// 2^levels leaves.
func towerInput(kind string, levels int) []byte {
	var b []byte
	switch kind {
	case "dictkey":
		b = append(b, '}', '(')
	case "setelem":
		b = append(b, 0x8f, '(')
	}
	b = append(b, 'K', 1, 'K', 1, 0x86, 0x94)
	for i := 0; i < levels; i++ {
		b = append(b, 'h', byte(i), 'h', byte(i), 0x86, 0x94)
	}
	switch kind {
	case "dictkey":
		// the tuples of all levels are on the stack: they become keys and values alternately
		if (levels+1)%2 == 1 {
			b = append(b, 'K', 1)
		}
		b = append(b, 'u')
	case "setelem":
		b = append(b, 0x90)
	}
	return append(b, '.')
}

// towerFamily decodes towers in a child process under a hang guard: in-process a hang could not
// be interrupted. Decoding takes microseconds when the decoder's work is bounded by the input
// size; the guard is six orders of magnitude above that.
func towerFamily(r *vlib.Run) {
	type child struct {
		kind   string
		levels int
		cmd    *exec.Cmd
		done   chan struct{}
	}
	var cs []*child
	for _, kind := range []string{"value", "dictkey", "setelem"} {
		for _, levels := range []int{8, 16, 64} {
			c := &child{kind: kind, levels: levels, cmd: exec.Command(os.Args[0], "-tower", fmt.Sprintf("%s:%d", kind, levels)), done: make(chan struct{})}
			if err := c.cmd.Start(); err != nil {
				vlib.Fatalf("tower child: %v", err)
			}
			go func() { c.cmd.Wait(); close(c.done) }()
			cs = append(cs, c)
			r.Add("tower_inputs", 1)
		}
	}
	deadline := time.After(20 * time.Second) // one guard for all children, which run side by side
	for _, c := range cs {
		in := towerInput(c.kind, c.levels)
		select {
		case <-c.done:
			if code := c.cmd.ProcessState.ExitCode(); code != 0 {
				r.Violation("C15:decode-crash:shared-tuple-tower-"+c.kind, fmt.Sprintf("decoding a %d-level shared-tuple tower (%d bytes) as %s: the process died or returned nothing (exit %d)", c.levels, len(in), c.kind, code),
					map[string]any{"kind": c.kind, "levels": c.levels, "input_hex": hex.EncodeToString(in)})
			}
		case <-deadline:
			deadline = time.After(0)
			c.cmd.Process.Kill()
			<-c.done
			r.Violation("C15:decode-hang:shared-tuple-tower-"+c.kind, fmt.Sprintf("decoding a %d-level shared-tuple tower (%d bytes) as %s did not return within 20 s (microseconds are expected; the work doubles with every 6 bytes of input)", c.levels, len(in), c.kind),
				map[string]any{"kind": c.kind, "levels": c.levels, "input_hex": hex.EncodeToString(in)})
		}
	}
}

func main() {
	flag.Parse()
	if *fTower != "" {
		var kind string
		var levels int
		if i := strings.IndexByte(*fTower, ':'); i > 0 {
			kind = (*fTower)[:i]
			fmt.Sscan((*fTower)[i+1:], &levels)
		}
		v, err := pickle.NewDecoder(bytes.NewReader(towerInput(kind, levels)), nil).Decode()
		if err == nil && v == nil {
			os.Exit(7)
		}
		os.Exit(0)
	}
	r := vlib.Start("C15")
	if !r.IsWorker() {
		decodeWatchdog(r)
	}
	if r.IsWorker() {
		recordFaults(r) // worker processes only serve the record-fault part
		return
	}
	// (a1) all byte strings of length <= 3 over all 256 values; sharded by first byte
	r.Parallel(257, func(first int) {
		a := newAcc(r)
		defer a.flush()
		if first == 256 {
			check(a, nil, "empty")
			return
		}
		b0 := byte(first)
		check(a, []byte{b0}, "len1")
		for b1 := 0; b1 < 256; b1++ {
			check(a, []byte{b0, byte(b1)}, "len2")
			for b2 := 0; b2 < 256; b2++ {
				check(a, []byte{b0, byte(b1), byte(b2)}, "len3")
			}
		}
	})
	// (a2) length 4..L over the implemented opcodes plus small operand bytes
	alpha := append(append([]byte{}, opcodes...), 0, 1, 2, '\n', '0', '1', 0xff)
	maxL := 4
	if r.Thorough() {
		maxL = 5
	}
	r.Parallel(len(alpha), func(fi int) {
		a := newAcc(r)
		defer a.flush()
		buf := make([]byte, maxL)
		buf[0] = alpha[fi]
		var rec func(n int)
		rec = func(n int) {
			if n >= 4 {
				check(a, append([]byte{}, buf[:n]...), "opcode-alphabet")
			}
			if n == maxL {
				return
			}
			for _, a := range alpha {
				buf[n] = a
				rec(n + 1)
			}
		}
		rec(1)
	})
	// (a3) opcode sequences of length <= 6 (7 thorough) over a 12-opcode core, operands from tiny domains
	core := [][]byte{{'('}, {'.'}, {'N'}, {'K', 1}, {']'}, {'a'}, {'e'}, {')'}, {0x85}, {'t'}, {'}'}, {'u'}, {0x8f}, {0x90}, {0x94}, {'h', 0}, {'h', 1}, {0x8c, 1, 'd'}, {0x93}, {0x81}, {0x86},
		// memo opcodes of the pickle protocol that the decoder does not implement today (explicit
		// memo ids leave holes below them) and a reference to a higher id
		{'q', 0}, {'q', 1}, {'q', 2}, {'h', 2}, {'r', 1, 0, 0, 0}, {'j', 0, 0, 0, 0}}
	maxS := 5
	if r.Thorough() {
		maxS = 6
	}
	r.Parallel(len(core), func(fi int) {
		a := newAcc(r)
		defer a.flush()
		var rec func(prefix []byte, n int)
		rec = func(prefix []byte, n int) {
			check(a, prefix, "opcode-sequence")
			if n == maxS {
				return
			}
			for _, c := range core {
				rec(append(append([]byte{}, prefix...), c...), n+1)
			}
		}
		rec(append([]byte{}, core[fi]...), 1)
	})
	// (b) corruptions of valid encodings
	subst := []byte{0, 1, 0x7f, 0x80, 0xff, '(', '.', ')', ']', '}', 'a', 'e', 'u', 't', 0x81, 0x93, 0x94, 'h', 'j', 'K', 'M', 'J', 'I', 'N', 0x8c, 0x85, 0x86, 0x87, 0x8f, 0x90, 'q', 'r', 'p', 'g', '0', '2'}
	if r.Thorough() {
		subst = nil
		for i := 0; i < 256; i++ {
			subst = append(subst, byte(i))
		}
	}
	valid := validEncodings()
	var names []string
	for n := range valid {
		names = append(names, n)
	}
	type job struct {
		name string
		pos  int
	}
	var jobs []job
	a0 := newAcc(r)
	for _, n := range names {
		check(a0, valid[n], "valid:"+n)
		for p := 0; p <= len(valid[n]); p++ {
			jobs = append(jobs, job{n, p})
		}
	}
	a0.flush()
	r.Parallel(len(jobs), func(ji int) {
		a := newAcc(r)
		defer a.flush()
		j := jobs[ji]
		e := valid[j.name]
		check(a, e[:j.pos], "truncation of "+j.name) // truncation
		if j.pos < len(e) {
			del := append(append([]byte{}, e[:j.pos]...), e[j.pos+1:]...)
			check(a, del, "deletion in "+j.name)
			for _, s := range subst {
				if s == e[j.pos] {
					continue
				}
				m := append([]byte{}, e...)
				m[j.pos] = s
				check(a, m, "substitution in "+j.name)
			}
		}
		for _, s := range subst[:min(len(subst), 30)] {
			ins := append(append(append([]byte{}, e[:j.pos]...), s), e[j.pos:]...)
			check(a, ins, "insertion in "+j.name)
		}
	})
	r.Sample(map[string]any{"input_hex": "28292e", "meaning": "MARK EMPTY_TUPLE STOP"})
	r.Sample(map[string]any{"valid_encoding": "function env f", "bytes": len(valid["function env f"])})

	towerFamily(r)
	recordFaults(r)

	r.Assumptions = []string{
		"precondition of the property: inputs in which some 4-byte length field exceeds the input size are outside the quantifier (skipped, counted)",
		"internal sentinel values that escape (the mark object) are non-nil, printable and hashable and are accepted as values",
	}
	r.Finish(vlib.Coverage{
		Evaluations:        r.Get("decodes") + r.Get("record_faults"),
		DistinctNontrivial: r.Get("decodes")/2 - r.Get("skipped_precondition"),
		Rule:               "all byte strings of length <=3 (256^n), all strings of length 4 (5 thorough) over 38 opcode/operand bytes, all opcode sequences of <=5 (6) ops over a 27-op core (incl. the protocol's explicit-id memo opcodes), every truncation/deletion/substitution/insertion of 6 valid encodings incl. two real function environments; each decoded without and with dawn's environment unpickler; distinct inputs are all distinct by construction",
		States:             r.Get("decodes") / 2,
		Transitions:        r.Get("decodes") + r.Get("record_faults"),
		Exhaustive:         true,
		Outcomes:           r.NumOutcomes("classes") + r.NumOutcomes("record_outcomes"),
		Bounds:             map[string]any{"all_bytes_len": 3, "opcode_alphabet_len": maxL, "opcode_sequence_len": maxS, "substitution_values": len(subst)},
	})
}
