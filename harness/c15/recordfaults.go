package main

import "github.com/pgavlin/dawn/internal/verif/vlib"

// recordFaults: corrupted record files through Load/Run (parts c, d). Filled in below.
func recordFaults(r *vlib.Run) {}
