package main

import (
	"bytes"
	"encoding/base64"
	"encoding/json"
	"fmt"
	"os"
	"path/filepath"
	"sort"
	"strings"
	"time"

	dawn "github.com/pgavlin/dawn"
	"github.com/pgavlin/dawn/diff"
	"github.com/pgavlin/dawn/internal/verif/vlib"
	"github.com/pgavlin/dawn/label"
	"github.com/pgavlin/dawn/pickle"
	"go.starlark.net/starlark"
)

// Parts (c) and (d) of C15: every single-byte corruption / truncation / deletion of every
// record file of a built project, and every single structural edit of the environment stored
// in a record's stamp, followed by a fresh Load and Run in a worker process. The worker must
// not die; the outcome must be a Load error, a Run error or a re-execution - "everything up to
// date" is accepted only when an independent parse of the corrupted record carries the same
// stamp, dependencies, rerun flag and run id as the original.

var rfFiles = map[string]string{
	"dawn.toml": "name = \"p\"\n",
	"a.txt":     "a\n",
	"BUILD.dawn": `K = 300
def helper(x):
    return x + K
def _u(t):
    pass
target(name="u", function=_u, sources=["a.txt"])
INNER = ["in", (3, "x")]
OUTER = [INNER, "s", [INNER], (INNER, "t")]
def _t(t, d=[1, 2]):
    x = helper(1)
    y = (INNER, OUTER)
target(name="t", function=_t, deps=[":u"])
`,
	// a second package, loaded by its own goroutine, that needs the project's registry after a
	// while: a failure while loading the first package must not leave anything locked
	"zpkg/BUILD.dawn": `n = 0
for i in range(20000):
    n += i
def _z(t):
    pass
target(name="z", function=_z, sources=["z.txt"])
target(name="z2", function=_z)
`,
	"zpkg/z.txt": "z\n",
}

type rfEvents struct {
	dawn.Events
	evaluating []string
	uptodate   []string
	failed     []string
}

func (e *rfEvents) TargetEvaluating(l *label.Label, reason string, d diff.ValueDiff) {
	e.evaluating = append(e.evaluating, l.String())
}
func (e *rfEvents) TargetUpToDate(l *label.Label)          { e.uptodate = append(e.uptodate, l.String()) }
func (e *rfEvents) TargetFailed(l *label.Label, err error) { e.failed = append(e.failed, l.String()) }

func rfWrite(root string) {
	os.RemoveAll(root)
	for n, c := range rfFiles {
		os.MkdirAll(filepath.Dir(filepath.Join(root, n)), 0o755)
		os.WriteFile(filepath.Join(root, n), []byte(c), 0o644)
	}
}

// rfBuild loads and builds //:t; returns an outcome class.
// rfHung is set once a Load/Run has hung in this worker: the hung goroutines are leaked and
// further cases of this worker are skipped (counted).
var rfHung bool

func rfBuild(root string, preferIndex bool) string {
	done := make(chan string, 1)
	go func() { done <- rfBuildInner(root, preferIndex) }()
	select {
	case out := <-done:
		return out
	case <-time.After(45 * time.Second):
		rfHung = true
		return "HANG"
	}
}

// rfLoadOnly: index-preferred Load and a walk of the dependency graph, no build (under the same
// hang guard as rfBuild).
func rfLoadOnly(root string) string {
	done := make(chan string, 1)
	go func() { done <- rfLoadOnlyInner(root) }()
	select {
	case out := <-done:
		return out
	case <-time.After(45 * time.Second):
		rfHung = true
		return "HANG"
	}
}

func rfLoadOnlyInner(root string) (outcome string) {
	defer func() {
		if p := recover(); p != nil {
			outcome = fmt.Sprintf("PANIC %v", p)
		}
	}()
	proj, err := dawn.Load(root, &dawn.LoadOptions{Events: dawn.DiscardEvents, PreferIndex: true})
	if err != nil {
		return "load-error"
	}
	for _, t := range proj.Targets() {
		_ = t.Dependencies()
	}
	return "ok"
}

func rfBuildInner(root string, preferIndex bool) (outcome string) {
	defer func() {
		if p := recover(); p != nil {
			outcome = fmt.Sprintf("PANIC %v", p)
		}
	}()
	ev := &rfEvents{Events: dawn.DiscardEvents}
	proj, err := dawn.Load(root, &dawn.LoadOptions{Events: ev, PreferIndex: preferIndex})
	if err != nil {
		return "load-error"
	}
	// what the command line does after every load (list, graph, gc, repl): walk the dependency graph
	for _, t := range proj.Targets() {
		_ = t.Dependencies()
	}
	l, _ := label.Parse("//:t")
	if err := proj.Run(l, nil); err != nil {
		return "run-error"
	}
	if len(ev.evaluating) == 0 {
		return "up-to-date"
	}
	sort.Strings(ev.evaluating)
	return "executed " + strings.Join(ev.evaluating, ",")
}

type record struct {
	Doc   string            `json:"doc"`
	Deps  map[string]string `json:"dependencies"`
	Stamp string            `json:"stamp"`
	Rerun bool              `json:"rerun"`
	Run   string            `json:"run"`
}

func sameRecord(a, b []byte, ignoreRun bool) bool {
	var x, y record
	// the first JSON value of the file is the record (trailing bytes are not part of it)
	if json.NewDecoder(bytes.NewReader(a)).Decode(&x) != nil || json.NewDecoder(bytes.NewReader(b)).Decode(&y) != nil {
		return false
	}
	if !sameStamp(x.Stamp, y.Stamp) || x.Rerun != y.Rerun || (x.Run != y.Run && !ignoreRun) || len(x.Deps) != len(y.Deps) {
		return false
	}
	for k, v := range x.Deps {
		if y.Deps[k] != v {
			return false
		}
	}
	return true
}

// sameStamp: equal strings, or (function targets) stamps that decode to equal environments -
// e.g. a corruption that drops a MEMOIZE nobody refers to. The decoder itself is the subject of
// parts (a), (b) and of C07.
func sameStamp(a, b string) bool {
	if a == b {
		return true
	}
	dec := func(s string) (starlark.Value, error) {
		return pickle.NewDecoder(base64.NewDecoder(base64.StdEncoding, strings.NewReader(s)), pickle.UnpicklerFunc(dawn.VerifEnvUnpickler)).Decode()
	}
	x, err1 := dec(a)
	y, err2 := dec(b)
	if err1 != nil || err2 != nil || x == nil || y == nil {
		return false
	}
	eq, err := starlark.EqualDepth(x, y, 1000)
	return err == nil && eq
}

type rfCase struct {
	file string
	kind string
	pos  int
	val  int
	edit string // structural edits
}

func recordFaults(r *vlib.Run) {
	base := filepath.Join(r.Scratch, "rfbase")
	rfWrite(base)
	if out := rfBuild(base, false); !strings.HasPrefix(out, "executed") {
		vlib.Fatalf("record-fault project does not build: %s", out)
	}
	if out := rfBuild(base, false); out != "up-to-date" {
		vlib.Fatalf("record-fault project is not up to date after a build: %s", out)
	}
	// collect record files
	orig := map[string][]byte{}
	filepath.Walk(filepath.Join(base, ".dawn", "build"), func(p string, info os.FileInfo, err error) error {
		if err == nil && !info.IsDir() {
			rel, _ := filepath.Rel(base, p)
			b, _ := os.ReadFile(p)
			orig[rel] = b
		}
		return nil
	})
	var files []string
	for f := range orig {
		files = append(files, f)
	}
	sort.Strings(files)
	subst := []int{0, '"', '{', '}', ',', ':', 'A', '0', '=', ' ', 0xff, '\\'}
	if r.Thorough() {
		subst = nil
		for i := 0; i < 256; i++ {
			subst = append(subst, i)
		}
	}
	var cases []rfCase
	for _, f := range files {
		n := len(orig[f])
		for p := 0; p <= n; p++ {
			cases = append(cases, rfCase{file: f, kind: "truncate", pos: p})
			if p < n {
				cases = append(cases, rfCase{file: f, kind: "delete", pos: p})
				for _, v := range subst {
					if byte(v) != orig[f][p] {
						cases = append(cases, rfCase{file: f, kind: "subst", pos: p, val: v})
					}
				}
			}
		}
	}
	// a second base state: the record of //:u says that a build died inside its body
	// ("rerun": true, as the in-progress mark leaves it). Without damage //:u is re-executed;
	// a damaged record must not turn that into "up to date".
	baseB := filepath.Join(r.Scratch, "rfbaseB")
	copyDir(base, baseB)
	var fileB string
	var origB []byte
	for _, f := range files {
		if strings.HasSuffix(f, "targets/%2Fu") {
			var rec map[string]any
			if json.Unmarshal(orig[f], &rec) == nil {
				rec["rerun"] = true
				origB, _ = json.Marshal(rec)
				fileB = f
				os.WriteFile(filepath.Join(baseB, f), origB, 0o644)
			}
		}
	}
	if fileB == "" {
		vlib.Fatalf("record of //:u not found among %v", files)
	}
	if out := rfBuild(baseB, false); !strings.HasPrefix(out, "executed") || !strings.Contains(out, "//:u") {
		vlib.Fatalf("record-fault project B: //:u is not re-executed though marked in progress: %s", out)
	}
	os.RemoveAll(baseB)
	copyDir(base, baseB)
	os.WriteFile(filepath.Join(baseB, fileB), origB, 0o644)
	for p := 0; p <= len(origB); p++ {
		cases = append(cases, rfCase{file: fileB, kind: "B:truncate", pos: p})
		if p < len(origB) {
			cases = append(cases, rfCase{file: fileB, kind: "B:delete", pos: p})
			for _, v := range subst {
				if byte(v) != origB[p] {
					cases = append(cases, rfCase{file: fileB, kind: "B:subst", pos: p, val: v})
				}
			}
		}
	}
	// structural edits of the environments in function-target records
	type sedit struct {
		file, desc string
		stamp      string
	}
	var sedits []sedit
	for _, f := range files {
		if !strings.Contains(f, "targets") {
			continue
		}
		var rec record
		if json.Unmarshal(orig[f], &rec) != nil || rec.Stamp == "" {
			continue
		}
		raw, err := base64.StdEncoding.DecodeString(rec.Stamp)
		if err != nil {
			continue
		}
		env, err := pickle.NewDecoder(bytes.NewReader(raw), pickle.UnpicklerFunc(dawn.VerifEnvUnpickler)).Decode()
		if err != nil {
			vlib.Fatalf("decoding stamp of %s: %v", f, err)
		}
		for _, e := range structuralEdits(env) {
			if eq, err := starlark.EqualDepth(env, e.v, 1000); err == nil && eq {
				continue // the edit replaces a value by an equal one: the record still says the same
			}
			var buf bytes.Buffer
			if err := pickle.NewEncoder(&buf, nil).Encode(e.v); err != nil {
				continue
			}
			sedits = append(sedits, sedit{f, e.desc, base64.StdEncoding.EncodeToString(buf.Bytes())})
		}
	}
	nByte := len(cases)
	for i, e := range sedits {
		cases = append(cases, rfCase{file: e.file, kind: "structural", pos: i, edit: e.desc})
	}
	// single-byte corruptions of the environment encodings inside the records (the stamp is
	// base64 text: a corruption of the file's bytes changes six bits; here every byte of the
	// encoding itself takes small values (memo ids, lengths), its neighbours and a flipped low bit;
	// thorough: every value). A reference redirected to an enclosing container makes the recorded
	// environment self-referential.
	stampRaw := map[string][]byte{}
	for _, f := range files {
		var rec record
		if !strings.Contains(f, "targets") || json.Unmarshal(orig[f], &rec) != nil || rec.Stamp == "" {
			continue
		}
		raw, err := base64.StdEncoding.DecodeString(rec.Stamp)
		if err != nil {
			continue
		}
		stampRaw[f] = raw
		for p := range raw {
			vals := map[int]bool{}
			if r.Thorough() {
				for v := 0; v < 256; v++ {
					vals[v] = true
				}
			} else {
				for v := 0; v <= 8; v++ {
					vals[v] = true
				}
				vals[int(raw[p]^1)], vals[int(raw[p]+1)], vals[int(raw[p]-1)], vals[0xff] = true, true, true, true
				for _, op := range []byte("().NKMJI]aeu}t\x85\x86\x87\x8c\x8dXCB\x8e\x8f\x90\x91\x93\x94hj\x81\x88\x89\x8aGq\x80\x95") {
					vals[int(op)] = true // every opcode in the place of every byte (one value kind read as another)
				}
			}
			delete(vals, int(raw[p]))
			var vs []int
			for v := range vals {
				vs = append(vs, v)
			}
			sort.Ints(vs)
			for _, v := range vs {
				cases = append(cases, rfCase{file: f, kind: "stampbyte", pos: p, val: v, edit: fmt.Sprintf("byte %d of the environment encoding: %#02x -> %#02x", p, raw[p], v)})
			}
		}
	}
	if only := os.Getenv("VERIF_RF_ONLY"); only != "" {
		for _, c := range cases {
			if fmt.Sprintf("%s:%s:%d:%d", c.file, c.kind, c.pos, c.val) == only || (only == "allstructural" && c.kind == "structural") {
				root := filepath.Join(r.Scratch, "rf1")
				copyDir(base, root)
				m := append([]byte{}, orig[c.file]...)
				if c.kind == "structural" {
					var rec map[string]any
					json.Unmarshal(m, &rec)
					rec["stamp"] = sedits[c.pos].stamp
					m, _ = json.Marshal(rec)
					fmt.Println("DEBUG edit:", c.edit)
				} else if c.kind == "stampbyte" {
					raw := append([]byte{}, stampRaw[c.file]...)
					raw[c.pos] = byte(c.val)
					var rec map[string]any
					json.Unmarshal(m, &rec)
					rec["stamp"] = base64.StdEncoding.EncodeToString(raw)
					m, _ = json.Marshal(rec)
				} else {
					m[c.pos] = byte(c.val)
				}
				os.WriteFile(filepath.Join(root, c.file), m, 0o644)
				ev := &rfEvents{Events: dawn.DiscardEvents}
				proj, err := dawn.Load(root, &dawn.LoadOptions{Events: ev})
				fmt.Println("DEBUG load err:", err)
				if err == nil {
					l, _ := label.Parse("//:t")
					fmt.Println("DEBUG run err:", proj.Run(l, nil), "evaluating", ev.evaluating, "uptodate", ev.uptodate, "failed", ev.failed)
				}
				b, _ := os.ReadFile(filepath.Join(root, c.file))
				fmt.Println("DEBUG record after:", string(b))
			}
		}
		os.Exit(0)
	}
	r.OnCrash = func(idx int, output string) {
		c := cases[idx]
		what := firstLinesRF(output, 4)
		cls := "process-died"
		if strings.Contains(output, "index out of range") || strings.Contains(output, "slice bounds out of range") {
			cls = "index-panic"
		}
		r.Violation("C15:record-corruption-crash:"+cls, fmt.Sprintf("the process died after %s of %s at %d (%s): %s", c.kind, c.file, c.pos, c.edit, what),
			map[string]any{"file": c.file, "kind": c.kind, "pos": c.pos, "value": c.val, "edit": c.edit, "original_record": string(orig[c.file]), "output": what})
	}
	r.Distribute(len(cases), func(i int) {
		c := cases[i]
		if rfHung {
			r.Add("record_faults_skipped_after_hang", 1)
			return
		}
		root := filepath.Join(r.Scratch, "rf")
		os.RemoveAll(root)
		o := orig[c.file]
		if strings.HasPrefix(c.kind, "B:") {
			copyDir(baseB, root)
			o = origB
		} else {
			copyDir(base, root)
		}
		var m []byte
		switch strings.TrimPrefix(c.kind, "B:") {
		case "truncate":
			m = append([]byte{}, o[:c.pos]...)
		case "delete":
			m = append(append([]byte{}, o[:c.pos]...), o[c.pos+1:]...)
		case "subst":
			m = append([]byte{}, o...)
			m[c.pos] = byte(c.val)
		case "structural":
			var rec map[string]any
			json.Unmarshal(o, &rec)
			rec["stamp"] = sedits[i-nByte].stamp
			m, _ = json.Marshal(rec)
		case "stampbyte":
			raw := append([]byte{}, stampRaw[c.file]...)
			raw[c.pos] = byte(c.val)
			if declaredTooLong(raw) {
				// outside the property's quantifier (declared lengths bounded by the input size)
				r.Add("record_faults_skipped_precondition", 1)
				return
			}
			var rec map[string]any
			json.Unmarshal(o, &rec)
			rec["stamp"] = base64.StdEncoding.EncodeToString(raw)
			m, _ = json.Marshal(rec)
		}
		if bytes.Equal(m, o) {
			return
		}
		// the property's precondition (declared lengths bounded by the input size) applies to the
		// encoding a damaged record carries, whichever way it was damaged
		var probe record
		if json.NewDecoder(bytes.NewReader(m)).Decode(&probe) == nil && probe.Stamp != "" {
			if raw, err := base64.StdEncoding.DecodeString(probe.Stamp); err == nil && declaredTooLong(raw) {
				r.Add("record_faults_skipped_precondition", 1)
				return
			}
		}
		os.WriteFile(filepath.Join(root, c.file), m, 0o644)
		pi := strings.HasSuffix(c.file, "index.json")
		if !pi && !rfHung {
			// the damaged record as the index-preferred commands see it (list, graph, gc, repl
			// --index-only): load through the index and walk the dependency graph
			root2 := filepath.Join(r.Scratch, "rf2")
			os.RemoveAll(root2)
			copyDir(root, root2)
			out2 := rfLoadOnly(root2)
			if out2 == "HANG" {
				r.Violation("C15:record-corruption-hang", fmt.Sprintf("%s of %s at %d (%s): index-preferred Load did not return within 45s", c.kind, c.file, c.pos, c.edit), map[string]any{"file": c.file, "kind": c.kind, "pos": c.pos, "value": c.val, "corrupted": string(m)})
				return
			}
			if strings.HasPrefix(out2, "PANIC") {
				r.Violation("C15:record-corruption-panic:index-preferred-load", fmt.Sprintf("%s of %s at %d (%s): index-preferred Load + Dependencies: %s", c.kind, c.file, c.pos, c.edit, out2), map[string]any{"file": c.file, "kind": c.kind, "pos": c.pos, "value": c.val, "corrupted": string(m)})
			}
			r.Add("record_faults_index_preferred_loads", 1)
		}
		out := rfBuild(root, pi)
		r.Add("record_faults", 1)
		r.Outcome("record_outcomes", c.kind+":"+strings.SplitN(out, " ", 2)[0])
		switch {
		case out == "HANG":
			r.Violation("C15:record-corruption-hang", fmt.Sprintf("%s of %s at %d (%s): Load/Run did not return within 45s", c.kind, c.file, c.pos, c.edit), map[string]any{"file": c.file, "kind": c.kind, "pos": c.pos, "value": c.val, "corrupted": string(m)})
		case strings.HasPrefix(out, "PANIC"):
			r.Violation("C15:record-corruption-panic", fmt.Sprintf("%s of %s at %d (%s): %s", c.kind, c.file, c.pos, c.edit, out), map[string]any{"file": c.file, "kind": c.kind, "pos": c.pos, "value": c.val, "corrupted": string(m)})
		// the run id of //:t matters to nobody: no built target depends on it
		case out == "up-to-date" && !pi && !sameRecord(o, m, strings.HasSuffix(c.file, "%2Ft")):
			r.Violation("C15:corrupted-record-treated-as-up-to-date", fmt.Sprintf("%s of %s at %d (%s): every target reported up to date though the record no longer says what it said", c.kind, c.file, c.pos, c.edit),
				map[string]any{"file": c.file, "kind": c.kind, "pos": c.pos, "value": c.val, "original": string(o), "corrupted": string(m)})
		}
		if i%4001 == 0 {
			r.Sample(map[string]any{"file": c.file, "kind": c.kind, "pos": c.pos, "outcome": out})
		}
	})
}

type sval struct {
	desc string
	v    starlark.Value
}

// structuralEdits returns every single structural edit of env at every node (to depth 3):
// delete an entry, add an entry with a fresh key, replace a value by each of a few
// representatives, change a container's kind.
func structuralEdits(env starlark.Value) []sval {
	var out []sval
	repl := []starlark.Value{starlark.None, starlark.MakeInt(0), starlark.String(""), starlark.Tuple{}, starlark.NewList(nil), starlark.NewDict(0)}
	var rec func(v starlark.Value, path string, depth int, rebuild func(starlark.Value) starlark.Value)
	rec = func(v starlark.Value, path string, depth int, rebuild func(starlark.Value) starlark.Value) {
		for i, rv := range repl {
			out = append(out, sval{fmt.Sprintf("%s := repl#%d", path, i), rebuild(rv)})
		}
		if depth == 0 {
			return
		}
		switch x := v.(type) {
		case *starlark.Dict:
			items := x.Items()
			mk := func(skip int, add bool, sub int, subv starlark.Value) starlark.Value {
				d := starlark.NewDict(len(items) + 1)
				for i, it := range items {
					if i == skip {
						continue
					}
					val := it[1]
					if i == sub {
						val = subv
					}
					d.SetKey(it[0], val)
				}
				if add {
					d.SetKey(starlark.String("zz-unknown-key"), starlark.MakeInt(1))
				}
				return d
			}
			out = append(out, sval{path + " += unknown key", rebuild(mk(-1, true, -1, nil))})
			for i, it := range items {
				i := i
				out = append(out, sval{fmt.Sprintf("%s -= key %s", path, it[0]), rebuild(mk(i, false, -1, nil))})
				rec(it[1], fmt.Sprintf("%s[%s]", path, it[0]), depth-1, func(nv starlark.Value) starlark.Value { return rebuild(mk(-1, false, i, nv)) })
			}
		case starlark.Tuple:
			for i := range x {
				i := i
				rec(x[i], fmt.Sprintf("%s.%d", path, i), depth-1, func(nv starlark.Value) starlark.Value {
					t := append(starlark.Tuple{}, x...)
					t[i] = nv
					return rebuild(t)
				})
			}
			if len(x) > 0 {
				out = append(out, sval{path + " -= last", rebuild(append(starlark.Tuple{}, x[:len(x)-1]...))})
			}
			out = append(out, sval{path + " as list", rebuild(starlark.NewList(append([]starlark.Value{}, x...)))})
		case *starlark.List:
			var el []starlark.Value
			for i := 0; i < x.Len(); i++ {
				el = append(el, x.Index(i))
			}
			out = append(out, sval{path + " as tuple", rebuild(starlark.Tuple(el))})
			if len(el) > 0 {
				out = append(out, sval{path + " -= last", rebuild(starlark.NewList(el[:len(el)-1]))})
			}
		}
	}
	rec(env, "env", 3, func(v starlark.Value) starlark.Value { return v })
	return out
}

func firstLinesRF(s string, n int) string {
	ls := strings.Split(s, "\n")
	var keep []string
	for _, l := range ls {
		if strings.Contains(l, "panic") || strings.Contains(l, "fatal") || strings.Contains(l, ".go:") {
			keep = append(keep, strings.TrimSpace(l))
		}
		if len(keep) >= n {
			break
		}
	}
	return strings.Join(keep, " | ")
}

func copyDir(from, to string) {
	filepath.Walk(from, func(p string, info os.FileInfo, err error) error {
		if err != nil {
			return nil
		}
		rel, _ := filepath.Rel(from, p)
		dst := filepath.Join(to, rel)
		if info.IsDir() {
			os.MkdirAll(dst, 0o755)
			return nil
		}
		b, err := os.ReadFile(p)
		if err == nil {
			os.WriteFile(dst, b, 0o644)
		}
		return nil
	})
}
