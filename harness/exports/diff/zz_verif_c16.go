package diff

// In-package exports for the C16 harness (added by overlay; never in /repo).

import "go.starlark.net/starlark"

// VerifRouteSize is the route-size limit this binary was built with (the real constant,
// or the value substituted by `vtool overlay -const diff/diff_slice.go:defaultRouteSize=N`).
const VerifRouteSize = defaultRouteSize

// VerifRouteLimitHit reports whether composing the edit script of (a, b) abandons a search
// because the route-size limit was exceeded (differ.recordSeq then re-slices the inputs and
// records the offsets ox/oy, which stay zero otherwise). Evidence only: it is never used to
// decide a verdict.
func VerifRouteLimitHit(a, b starlark.Sliceable) (hit bool) {
	defer func() {
		if recover() != nil {
			hit = false
		}
	}()
	m, n := a.Len(), b.Len()
	reverse := false
	if m >= n {
		a, b, m, n, reverse = b, a, n, m, true
	}
	d := differ{a: a, b: b, m: m, n: n, reverse: reverse, depth: starlark.CompareLimit, routeSize: defaultRouteSize}
	if _, err := d.compose(); err != nil {
		return false
	}
	return d.ox != 0 || d.oy != 0
}
