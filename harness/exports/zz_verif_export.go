package dawn

// In-package exports for the verification harnesses (added by overlay; never in /repo).

import (
	"github.com/pgavlin/dawn/label"
	"go.starlark.net/starlark"
)

// VerifBuiltinCache is the Cache() constructor exposed to dawn programs.
var VerifBuiltinCache = builtin_cache

// VerifFunctionEnv computes a target function's environment (its fingerprint value).
func VerifFunctionEnv(f starlark.Callable) (starlark.Value, error) { return functionEnv(f) }

// VerifEnvPickler / VerifEnvUnpickler are the host (un)picklers used for fingerprints.
var VerifEnvPickler = envPickler

// VerifNewEnvPickler returns the per-encoding pickler dawn uses for fingerprints.
func VerifNewEnvPickler() func(x starlark.Value) (module, name string, args starlark.Tuple, err error) {
	return newEnvPickler()
}

var VerifEnvUnpickler = envUnpickler

// VerifTargetFunction returns the Starlark callable of a function target (nil otherwise).
func VerifTargetFunction(t Target) starlark.Callable {
	if f, ok := t.(*function); ok {
		return f.function
	}
	return nil
}

// VerifTargetInfoPath returns the record path of a label.
func VerifTargetInfoPath(p *Project, l *label.Label) string { return p.targetInfoPath(l) }

func VerifRepoSourcePath(pkg, p string) (string, error)    { return repoSourcePath(pkg, p) }
func VerifSourceLabel(pkg, p string) (*label.Label, error) { return sourceLabel(pkg, p) }
