package mvs

// In-package exports for the C10/C11 verification harnesses (added by overlay; never in /repo).

import (
	"context"

	"github.com/pgavlin/dawn/internal/vcs"
)

// VerifDialFunc adapts a function to the Dialer interface (whose only method is unexported).
type VerifDialFunc func(ctx context.Context, vcsKind, address string) (vcs.Repository, error)

func (f VerifDialFunc) dialRepository(ctx context.Context, vcsKind, address string) (vcs.Repository, error) {
	return f(ctx, vcsKind, address)
}
