// C20 — Cache.once computes each key at most once under concurrency.
// The real cache (cache.go) runs under the controlled scheduler; every interleaving of
// 2-3 callers with colliding keys is explored (unbounded, with happens-before pruning, and
// cross-checked against the unpruned exploration).
package main

import (
	"flag"
	"fmt"
	"os"
	"strings"
	"sync"

	dawn "github.com/pgavlin/dawn"
	"github.com/pgavlin/dawn/internal/verif/vlib"
	"github.com/pgavlin/dawn/internal/verif/vsched"
	"go.starlark.net/starlark"
)

// A call is once(key, callable) where the callable succeeds or fails.
type call struct {
	Key  int  `json:"key"`
	Fail bool `json:"fail"`
}

type scenario struct {
	Threads [][]call `json:"threads"`
}

func (s scenario) String() string {
	var b strings.Builder
	for i, t := range s.Threads {
		fmt.Fprintf(&b, "T%d:", i)
		for _, c := range t {
			f := ""
			if c.Fail {
				f = "!"
			}
			fmt.Fprintf(&b, "k%d%s ", c.Key, f)
		}
	}
	return b.String()
}

type obs struct {
	val  starlark.Value
	err  error
	done bool
}

type world struct {
	sc      scenario
	mon     vsched.Obj
	invoked map[int]int // successful invocations per key
	calls   map[int]int // all invocations per key
	fresh   int
	results [][]obs
	log     []string
}

func runOnce(sc scenario, prefix []int, trace bool) (*vsched.Result, *world) {
	w := &world{sc: sc, invoked: map[int]int{}, calls: map[int]int{}}
	w.mon.Desc = "monitor"
	w.results = make([][]obs, len(sc.Threads))
	res := vsched.Execute(prefix, vsched.Options{Trace: trace}, func() {
		cv, err := starlark.Call(&starlark.Thread{}, dawn.VerifBuiltinCache, nil, nil)
		if err != nil {
			panic(err)
		}
		once, err := cv.(starlark.HasAttrs).Attr("once")
		if err != nil || once == nil {
			panic(fmt.Sprint("no once attr: ", err))
		}
		onceOf := twoCaches(once)
		for ti := range sc.Threads {
			ti := ti
			w.results[ti] = make([]obs, len(sc.Threads[ti]))
			vsched.Go(func() {
				th := &starlark.Thread{Name: fmt.Sprint("T", ti)}
				for ci, c := range sc.Threads[ti] {
					c := c
					fn := starlark.NewBuiltin("f", func(*starlark.Thread, *starlark.Builtin, starlark.Tuple, []starlark.Tuple) (starlark.Value, error) {
						vsched.Access(&w.mon, true) // a scheduling point inside the callable
						w.calls[c.Key]++
						w.log = append(w.log, fmt.Sprintf("T%d invokes k%d", ti, c.Key))
						if c.Fail {
							return nil, fmt.Errorf("callable failed")
						}
						w.invoked[c.Key]++
						w.fresh++
						if c.Key%10 == 2 {
							return starlark.None, nil // a callable without a return statement ("run this step once")
						}
						return starlark.MakeInt(1000*c.Key + w.fresh), nil
					})
					v, err := starlark.Call(th, onceOf(c.Key), starlark.Tuple{starlark.String(fmt.Sprint("k", c.Key%10)), fn}, nil)
					vsched.Access(&w.mon, true)
					w.results[ti][ci] = obs{v, err, true}
				}
			})
		}
	})
	return res, w
}

// twoCaches: keys 1..9 belong to the first cache; keys 11..19 are the SAME key strings (k1..k9) in
// a second cache (what one cache holds is no business of another).
func twoCaches(first starlark.Value) func(key int) starlark.Callable {
	cv, err := starlark.Call(&starlark.Thread{}, dawn.VerifBuiltinCache, nil, nil)
	if err != nil {
		panic(err)
	}
	second, _ := cv.(starlark.HasAttrs).Attr("once")
	return func(key int) starlark.Callable {
		if key < 10 {
			return first.(starlark.Callable)
		}
		return second.(starlark.Callable)
	}
}

func (w *world) resultString() string {
	var b strings.Builder
	for _, t := range w.results {
		b.WriteString("|")
		for _, o := range t {
			switch {
			case !o.done:
				b.WriteString(" pending")
			case o.err != nil:
				b.WriteString(" err")
			default:
				b.WriteString(" " + o.val.String())
			}
		}
	}
	return b.String()
}

func verdicts(sc scenario, res *vsched.Result, w *world) []string {
	var bad []string
	if res.Deadlock != "" {
		bad = append(bad, "deadlock|"+res.Deadlock)
	}
	if res.Livelock != "" {
		bad = append(bad, "livelock|"+res.Livelock)
	}
	if res.Panic != "" {
		bad = append(bad, "panic|"+strings.SplitN(res.Panic, "\n", 2)[0])
	}
	if len(bad) > 0 {
		return bad
	}
	vals := map[int]starlark.Value{}
	for k, n := range w.invoked {
		if n > 1 {
			bad = append(bad, fmt.Sprintf("computed-twice|callable for k%d succeeded %d times", k, n))
		}
	}
	for ti, t := range sc.Threads {
		for ci, c := range t {
			o := w.results[ti][ci]
			if !o.done {
				bad = append(bad, "call-did-not-return|a call never returned")
				continue
			}
			if o.err != nil {
				// an error must come from this call's own failing callable
				if !c.Fail {
					bad = append(bad, fmt.Sprintf("spurious-error|T%d's succeeding call for k%d returned %v", ti, c.Key, o.err))
				}
				continue
			}
			if prev, ok := vals[c.Key]; ok {
				if prev != o.val {
					bad = append(bad, fmt.Sprintf("different-values|callers of k%d received %v and %v", c.Key, prev, o.val))
				}
			} else {
				vals[c.Key] = o.val
			}
		}
	}
	// a failed call caches nothing: if a key has a value, some callable for it succeeded
	for k := range vals {
		if w.invoked[k] == 0 {
			bad = append(bad, fmt.Sprintf("value-without-success|k%d has a value though no callable succeeded", k))
		}
	}
	// retry: if every call for k that returned a value ... (covered by: a succeeding callable whose
	// call returned a value computed by itself or by an earlier success)
	for ti, t := range sc.Threads {
		for ci, c := range t {
			o := w.results[ti][ci]
			if o.done && o.err != nil && c.Fail {
				continue
			}
			if o.done && o.err == nil && w.invoked[c.Key] == 0 {
				bad = append(bad, fmt.Sprintf("failed-result-cached|T%d got a value for k%d that no successful callable produced", ti, c.Key))
			}
		}
	}
	return bad
}

func scenarios(thorough bool) []scenario {
	var out []scenario
	opts := []call{{1, false}, {1, true}, {2, false}, {2, true}}
	var seqs [][]call
	for _, a := range opts {
		seqs = append(seqs, []call{a})
	}
	for _, a := range opts {
		for _, b := range opts {
			seqs = append(seqs, []call{a, b})
		}
	}
	// two threads: all pairs of sequences (1-2 calls each)
	for i, a := range seqs {
		for j := i; j < len(seqs); j++ {
			out = append(out, scenario{[][]call{a, seqs[j]}})
		}
	}
	// three threads: one call each (all), and in thorough 1-2 calls each with key k1 forced to collide
	for _, a := range opts {
		for _, b := range opts {
			for _, c := range opts {
				out = append(out, scenario{[][]call{{a}, {b}, {c}}})
			}
		}
	}
	// two caches holding the same key string: one thread touches the key in both
	two := []call{{1, false}, {11, false}, {1, true}, {11, true}}
	var seqs2 [][]call
	for _, a := range two {
		for _, b := range two {
			if a.Key != b.Key {
				seqs2 = append(seqs2, []call{a, b})
			}
		}
	}
	for _, a := range seqs2 {
		for _, b := range two {
			out = append(out, scenario{[][]call{a, {b}}})
		}
	}
	if thorough {
		for _, a := range seqs {
			for _, b := range seqs {
				for _, c := range seqs[:4] {
					if len(a) == 2 || len(b) == 2 {
						out = append(out, scenario{[][]call{a, b, c}})
					}
				}
			}
		}
	}
	return out
}

type replayFile struct {
	Scenario scenario `json:"scenario"`
	Choices  []int    `json:"choices"`
	Observed []string `json:"observed"`
	Log      []string `json:"log"`
	Threads  any      `json:"thread_logs"`
}

var fFree = flag.Int("free", 0, "race pass: run every scenario this many times on the real Go scheduler (binary built with -race, no sync rewriting)")

// freePass: the same callers as real goroutines; the monitor is guarded by a real mutex. The
// race detector sees what the cooperative scheduler cannot.
func freePass(scs []scenario) {
	n := 0
	for _, sc := range scs {
		for it := 0; it < *fFree; it++ {
			cv, err := starlark.Call(&starlark.Thread{}, dawn.VerifBuiltinCache, nil, nil)
			if err != nil {
				panic(err)
			}
			once, _ := cv.(starlark.HasAttrs).Attr("once")
			onceOf := twoCaches(once)
			var mu sync.Mutex
			invoked := map[int]int{}
			fresh := 0
			var wg sync.WaitGroup
			vals := make([][]starlark.Value, len(sc.Threads))
			for ti := range sc.Threads {
				ti := ti
				vals[ti] = make([]starlark.Value, len(sc.Threads[ti]))
				wg.Add(1)
				go func() {
					defer wg.Done()
					th := &starlark.Thread{}
					for ci, c := range sc.Threads[ti] {
						c := c
						fn := starlark.NewBuiltin("f", func(*starlark.Thread, *starlark.Builtin, starlark.Tuple, []starlark.Tuple) (starlark.Value, error) {
							mu.Lock()
							defer mu.Unlock()
							if c.Fail {
								return nil, fmt.Errorf("callable failed")
							}
							invoked[c.Key]++
							fresh++
							if c.Key%10 == 2 {
								return starlark.None, nil
							}
							return starlark.MakeInt(1000*c.Key + fresh), nil
						})
						v, _ := starlark.Call(th, onceOf(c.Key), starlark.Tuple{starlark.String(fmt.Sprint("k", c.Key%10)), fn}, nil)
						vals[ti][ci] = v
					}
				}()
			}
			wg.Wait()
			for k, c := range invoked {
				if c > 1 {
					fmt.Printf("VIOLATION property=C20 replay=-\n  free-running: callable for k%d succeeded %d times in %s\n", k, c, sc)
					os.Exit(1)
				}
			}
			n++
		}
	}
	fmt.Printf("C20 race pass: %d free-running executions of %d scenarios, no data race reported by the detector\n", n, len(scs))
	os.Exit(0)
}

func main() {
	flag.Parse()
	if *fFree > 0 {
		freePass(scenarios(true))
	}
	r := vlib.Start("C20")
	if r.ReplayIn != "" {
		var rf replayFile
		r.LoadReplay(&rf)
		res, w := runOnce(rf.Scenario, rf.Choices, true)
		bad := verdicts(rf.Scenario, res, w)
		fmt.Printf("scenario: %s\nschedule: %v\ninvocations: %v\nresults: %s\n", rf.Scenario, rf.Choices, w.log, w.resultString())
		if len(bad) == 0 {
			fmt.Println("observed: no violation on this tree")
			os.Exit(0)
		}
		for _, b := range bad {
			fmt.Println("observed:", b)
		}
		fmt.Printf("VIOLATION property=C20 replay=%s\n", r.ReplayIn)
		os.Exit(1)
	}
	scs := scenarios(r.Thorough())
	r.Distribute(len(scs), func(i int) {
		sc := scs[i]
		sets := [2]map[string]bool{{}, {}}
		var execs [2]int64
		violated := false
		for pass := 0; pass < 2; pass++ {
			prune := pass == 0
			if !prune && (len(sc.Threads) > 2 || r.Expired()) {
				continue // unpruned cross-check only where cheap (two threads)
			}
			ex := &vsched.Explorer{Bound: -1, Prune: prune, MaxExecs: 2_000_000}
			ex.Run = func(prefix []int) *vsched.Result {
				res, w := runOnce(sc, prefix, false)
				bad := verdicts(sc, res, w)
				sets[pass][strings.Join(w.log, ";")+w.resultString()] = true
				if len(bad) > 0 {
					violated = true
				}
				if len(bad) > 0 && prune {
					res2, w2 := runOnce(sc, res.Choices, true)
					b2 := verdicts(sc, res2, w2)
					if strings.Join(b2, ";") != strings.Join(bad, ";") {
						// the violation was observed; that the same schedule does not repeat it means
						// the code under test consults something the scheduler does not control (a
						// random seed, the clock): reported as seen, under a signature of its own
						for _, b := range bad {
							p := strings.SplitN(b, "|", 2)
							r.Violation("C20:"+p[0]+":not-repeatable-under-the-same-schedule", fmt.Sprintf("%s [%s] schedule=%v (a replay of the same schedule gave %v)", p[1], sc, res.Choices, b2), replayFile{sc, res.Choices, bad, w.log, res.Logs})
						}
						res.Points = nil
						return res
					}
					for _, b := range bad {
						p := strings.SplitN(b, "|", 2)
						r.Violation("C20:"+p[0], fmt.Sprintf("%s [%s] schedule=%v", p[1], sc, res.Choices), replayFile{sc, res.Choices, bad, w2.log, res2.Logs})
					}
					res.Points = nil
				}
				return res
			}
			ex.Check = func(*vsched.Result) bool { return !r.Expired() }
			ex.Explore()
			execs[pass] = ex.Execs
			if ex.Capped != "" {
				r.Cap("execution cap reached in some scenario: " + ex.Capped)
			}
			if ex.Stopped {
				r.Cap("wall-clock budget: some scenarios only partly explored")
				violated = true // incomplete: do not compare pruned and unpruned outcome sets
			}
			r.Max("points_per_execution", int64(ex.MaxPoints))
		}
		r.Add("executions", execs[0])
		r.Add("executions_unpruned_crosscheck", execs[1])
		r.Add("scenarios", 1)
		r.Add("distinct_outcomes", int64(len(sets[0])))
		if len(sets[0]) > 1 {
			r.Add("scenarios_with_contention", 1)
		}
		if execs[1] > 0 {
			r.Add("scenarios_crosschecked", 1)
			if !violated && len(sets[0]) != len(sets[1]) {
				for k := range sets[1] {
					if !sets[0][k] {
						fmt.Println("MISSING in pruned:", k)
					}
				}
				vlib.Fatalf("pruned and unpruned explorations disagree on the set of outcomes for %s: %d vs %d", sc, len(sets[0]), len(sets[1]))
			}
		}
		if i%40 == 0 {
			r.Sample(map[string]any{"scenario": sc.String(), "interleavings": execs[0], "distinct_outcomes": len(sets[0])})
		}
	})
	r.Assumptions = []string{"scheduling points at every RWMutex operation and inside the callable; sequential consistency", "unbounded exploration with happens-before pruning, cross-checked against unpruned exploration (same outcome sets) on the scenarios listed in counters.scenarios_crosschecked"}
	r.Finish(vlib.Coverage{
		Evaluations:        r.Get("executions") + r.Get("executions_unpruned_crosscheck"),
		DistinctNontrivial: r.Get("scenarios_with_contention"),
		Rule:               "scenario = 2-3 threads x 1-2 once() calls each over keys {k1,k2} x succeeding/failing callables; every interleaving explored (no preemption bound); non-trivial = scenario whose interleavings yield more than one distinct (invocation log, results) outcome",
		States:             r.Get("distinct_outcomes"),
		Transitions:        r.Get("executions"),
		Exhaustive:         true,
		Outcomes:           r.Get("distinct_outcomes"),
		Bounds:             map[string]any{"threads": "2-3", "calls_per_thread": "1-2", "keys": 2, "preemption_bound": "unbounded"},
	})
}
