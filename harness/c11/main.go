// C11 — requirement edits (Tidy / UpgradeAll / Get) keep the requirement graph consistent.
//
// Bounded-exhaustive: families of universes (all requirement functions over small
// project x version sets; a query-semantics family with pre-release, patch versions, untagged
// revisions and branches; a two-majors family; a v0/v1 family; the universe of reqs_test.go)
// x every root requirement set (<=1 version per project, two naming schemes) x every operation
// {Tidy, UpgradeAll, Get(q)} x every SEQUENCE of operations up to the depth bound, explored
// as a state graph (state = requirement map) with memoised transitions. Every result is
// re-resolved with the real BuildList and with an independent reference model; version
// queries are resolved by an independent reference of the query language.
package main

import (
	"context"
	"fmt"
	"os"
	"path/filepath"
	"sort"
	"strings"
	"time"

	"github.com/pgavlin/dawn/internal/mvs"
	"github.com/pgavlin/dawn/internal/project"
	"github.com/pgavlin/dawn/internal/verif/mvsfake"
	"github.com/pgavlin/dawn/internal/verif/vlib"
	"golang.org/x/mod/semver"
)

type Req = mvsfake.Req

// ---- families ---------------------------------------------------------------------------------

type fam struct {
	name     string
	count    int64
	universe func(i int64) *mvsfake.Universe
	paths    []string // module paths in family order (for the rotated naming scheme)
	rootSets [][]Req
	queries  []mvsfake.Query
	rotated  bool // also start from root sets whose requirement names are rotated
	depth    int  // operations per sequence
	noSpell  bool // no non-canonical path spellings (the big family)
}

func natName(p string) string {
	base, major := mvsfake.SplitMajor(p)
	n := filepath.Base(base)
	if major != "" {
		n += "@" + major
	}
	return n
}

// queries over one module path. level 2 = the whole query language, 1 = reduced, 0 = no
// version and every exact version.
func pathQueries(p string, versions []string, level int, branches []string, revs []string, prefixes []string) []mvsfake.Query {
	q := []mvsfake.Query{{Path: p, Kind: "none"}}
	if level >= 1 {
		q = append(q, mvsfake.Query{Path: p, Kind: "upgrade"}, mvsfake.Query{Path: p, Kind: "patch"})
	}
	for _, v := range versions {
		q = append(q, mvsfake.Query{Path: p, Kind: "exact", Arg: v})
	}
	for _, b := range branches {
		q = append(q, mvsfake.Query{Path: p, Kind: "branch", Arg: b})
	}
	if level >= 2 {
		q = append(q, mvsfake.Query{Path: p, Kind: "latest"})
		for _, v := range versions {
			for _, k := range []string{"gt", "gte", "lt", "lte"} {
				q = append(q, mvsfake.Query{Path: p, Kind: k, Arg: v})
			}
		}
		for _, r := range revs {
			q = append(q, mvsfake.Query{Path: p, Kind: "rev", Arg: r})
		}
		for _, x := range prefixes {
			q = append(q, mvsfake.Query{Path: p, Kind: "prefix", Arg: x})
		}
	} else if len(versions) > 1 && level >= 1 {
		q = append(q, mvsfake.Query{Path: p, Kind: "lt", Arg: versions[len(versions)-1]})
	}
	return q
}

// generic builds a family out of a mvsfake.Family, adding a second branch "dev" one revision
// below the head of every repository.
func generic(f *mvsfake.Family, level int, refs bool, rotated bool, depth int) *fam {
	out := &fam{name: f.Name, count: f.Count(), rotated: rotated, depth: depth, rootSets: f.RootSets()}
	out.universe = func(i int64) *mvsfake.Universe {
		u := f.Universe(i)
		for k := range u.Repos {
			if u.Repos[k].NRevs > 1 {
				u.Repos[k].Branches["dev"] = u.Repos[k].NRevs - 1
			}
		}
		return u
	}
	w := mvsfake.Build(out.universe(0))
	for i, p := range f.Projects {
		mp := f.Path(i)
		out.paths = append(out.paths, mp)
		repo := w.Repo(mp)
		var branches, revs []string
		if refs {
			branches = []string{"main"}
			if repo.Branch("dev") != nil && level >= 2 {
				branches = append(branches, "dev")
			}
			// one revision addressed by its abbreviated id: the one after the project's first tag
			// (tagged for another project in a shared repository), else that first tag's own
			ri := w.TagRev(mp, p.Versions[0])
			if ri < repo.Spec().NRevs {
				ri++
			}
			revs = []string{repo.Rev(ri).PseudoID()}
		}
		out.queries = append(out.queries, pathQueries(mp, p.Versions, level, branches, revs, nil)...)
	}
	return out
}

// familyB: one project with four versions (patch release, pre-release as the highest tag),
// untagged revisions and two branches, plus a single-version project.
func familyB(depth int) *fam {
	const addr = "example.com"
	av := []string{"v1.0.0", "v1.1.0", "v1.1.1", "v1.2.0-rc.1"}
	arev := []int{1, 2, 4, 5}
	pa, pb := addr+"/a", addr+"/b"
	out := &fam{name: "query-semantics a(v1.0.0 v1.1.0 v1.1.1 v1.2.0-rc.1),b", count: 16 * 5 * 2, paths: []string{pa, pb}, rotated: true, depth: depth}
	out.universe = func(i int64) *mvsfake.Universe {
		abits := int(i % 16)
		bsel := int(i / 16 % 5)
		head := 5 + int(i/80%2)
		r := mvsfake.RepoSpec{Addr: addr, NRevs: head, Branches: map[string]int{"main": head, "dev": 3}, Default: "main"}
		var breq []Req
		if bsel > 0 {
			breq = []Req{{pa, av[bsel-1]}}
		}
		r.Tags = append(r.Tags, mvsfake.Tag{Dir: "b", Version: "v1.0.0", Rev: 1, Requires: breq})
		for k, v := range av {
			var rq []Req
			if abits>>k&1 == 1 {
				rq = []Req{{pb, "v1.0.0"}}
			}
			r.Tags = append(r.Tags, mvsfake.Tag{Dir: "a", Version: v, Rev: arev[k], Requires: rq})
		}
		return &mvsfake.Universe{Repos: []mvsfake.RepoSpec{r}}
	}
	for _, a := range append([]string{""}, av...) {
		for _, b := range []string{"", "v1.0.0"} {
			var s []Req
			if a != "" {
				s = append(s, Req{pa, a})
			}
			if b != "" {
				s = append(s, Req{pb, b})
			}
			out.rootSets = append(out.rootSets, s)
		}
	}
	w := mvsfake.Build(out.universe(0))
	repo := w.Repo(pa)
	out.queries = append(out.queries, pathQueries(pa, append(append([]string{}, av...), "v1.3.0"), 2, []string{"main", "dev"},
		[]string{repo.Rev(3).PseudoID(), repo.Rev(4).ID()}, []string{"v1.0", "v1.1", "v1.2", "v1.3"})...)
	out.queries = append(out.queries, pathQueries(pb, []string{"v1.0.0"}, 1, []string{"main", "dev"}, nil, nil)...)
	return out
}

// familyRC: a promoted release candidate - revision 3 carries BOTH a/v1.3.0-rc.1 and a/v1.3.0
// (one commit, one content); branches dev -> 3, old -> 2, main -> 3 or an untagged revision 4.
func familyRC(depth int) *fam {
	const addr = "example.com"
	av := []string{"v1.0.0", "v1.1.0", "v1.3.0-rc.1", "v1.3.0"}
	arev := []int{1, 2, 3, 3}
	content := []int{0, 1, 2, 2} // the two tags of revision 3 name the same dawn.toml
	pa, pb := addr+"/a", addr+"/b"
	out := &fam{name: "promoted release candidate: a(v1.0.0 v1.1.0 v1.3.0-rc.1=v1.3.0 on one commit), b", count: 8 * 5 * 2, paths: []string{pa, pb}, rotated: false, depth: depth}
	out.universe = func(i int64) *mvsfake.Universe {
		abits := int(i % 8)
		bsel := int(i / 8 % 5)
		head := 3 + int(i/40%2)
		r := mvsfake.RepoSpec{Addr: addr, NRevs: head, Branches: map[string]int{"main": head, "dev": 3, "old": 2}, Default: "main"}
		var breq []Req
		if bsel > 0 {
			breq = []Req{{pa, av[bsel-1]}}
		}
		r.Tags = append(r.Tags, mvsfake.Tag{Dir: "b", Version: "v1.0.0", Rev: 1, Requires: breq})
		for k, v := range av {
			var rq []Req
			if abits>>content[k]&1 == 1 {
				rq = []Req{{pb, "v1.0.0"}}
			}
			r.Tags = append(r.Tags, mvsfake.Tag{Dir: "a", Version: v, Rev: arev[k], Requires: rq})
		}
		return &mvsfake.Universe{Repos: []mvsfake.RepoSpec{r}}
	}
	for _, a := range append([]string{""}, av...) {
		for _, b := range []string{"", "v1.0.0"} {
			var s []Req
			if a != "" {
				s = append(s, Req{pa, a})
			}
			if b != "" {
				s = append(s, Req{pb, b})
			}
			out.rootSets = append(out.rootSets, s)
		}
	}
	w := mvsfake.Build(out.universe(0))
	repo := w.Repo(pa)
	out.queries = append(out.queries, pathQueries(pa, av, 1, []string{"main", "dev", "old"}, nil, nil)...)
	out.queries = append(out.queries, mvsfake.Query{Path: pa, Kind: "rev", Arg: repo.Rev(3).PseudoID()}, mvsfake.Query{Path: pa, Kind: "rev", Arg: repo.Rev(3).ID()}, mvsfake.Query{Path: pa, Kind: "latest"})
	out.queries = append(out.queries, pathQueries(pb, []string{"v1.0.0"}, 0, []string{"main"}, nil, nil)...)
	return out
}

// familyT: the universe of /repo/internal/mvs/reqs_test.go.
func familyT(depth int) *fam {
	const sandbox = "github.com/pgavlin/sandbox"
	m := func(p string, v int) Req { return Req{sandbox + "/" + p, fmt.Sprintf("v1.%d.0", v)} }
	tag := func(p string, v int, reqs ...Req) mvsfake.Tag {
		return mvsfake.Tag{Dir: p, Version: fmt.Sprintf("v1.%d.0", v), Rev: v, Requires: reqs}
	}
	u := &mvsfake.Universe{Repos: []mvsfake.RepoSpec{{Addr: sandbox, NRevs: 5, Default: "main", Branches: map[string]int{"main": 1, "tip": 5}, Tags: []mvsfake.Tag{
		tag("b", 1, m("d", 3)), tag("c", 1, m("d", 2)), tag("e", 1), tag("f", 1), tag("g", 1, m("c", 4)), tag("h", 1),
		tag("c", 2, m("d", 4)), tag("d", 2, m("e", 1)), tag("e", 2),
		tag("c", 3, m("d", 5)), tag("d", 3, m("e", 2)),
		tag("c", 4, m("g", 1)), tag("d", 4, m("e", 2), m("f", 1)),
		tag("d", 5, m("e", 2)),
	}}}}
	out := &fam{name: "reqs_test.go universe", count: 1, universe: func(int64) *mvsfake.Universe { return u }, rotated: false, depth: depth}
	for _, p := range []string{"b", "c", "d", "e", "f", "g", "h"} {
		out.paths = append(out.paths, sandbox+"/"+p)
	}
	out.rootSets = [][]Req{
		{m("b", 1), m("c", 2)}, {m("b", 1)}, {m("c", 1)}, {m("c", 4)}, {m("g", 1)}, {m("b", 1), m("c", 4), m("d", 5), m("f", 1)},
		{m("c", 3), m("h", 1)}, {m("d", 2)}, {m("b", 1), m("c", 2), m("g", 1)}, {},
	}
	vs := map[string][]string{"b": {"v1.1.0"}, "c": {"v1.1.0", "v1.2.0", "v1.3.0", "v1.4.0"}, "d": {"v1.2.0", "v1.3.0", "v1.4.0", "v1.5.0"}, "e": {"v1.1.0", "v1.2.0"}, "g": {"v1.1.0"}}
	for _, p := range []string{"b", "c", "d", "e", "g"} {
		lvl, pre := 1, []string(nil)
		if p == "c" || p == "d" {
			lvl, pre = 2, []string{"v1.3", "v1.4"}
		}
		br := []string{"main", "tip"}
		if p == "d" {
			br = []string{"tip"} // d does not exist yet on main (revision 1)
		}
		out.queries = append(out.queries, pathQueries(sandbox+"/"+p, vs[p], lvl, br, nil, pre)...)
	}
	return out
}

// ---- states -----------------------------------------------------------------------------------

type state map[string]Req // requirement name -> (path, version)

func (s state) key() string {
	var ks []string
	for n := range s {
		ks = append(ks, n)
	}
	sort.Strings(ks)
	var b strings.Builder
	for _, n := range ks {
		fmt.Fprintf(&b, "%s=%s@%s;", n, s[n].Path, s[n].Version)
	}
	return b.String()
}

func (s state) roots() []Req {
	var ks []string
	for n := range s {
		ks = append(ks, n)
	}
	sort.Strings(ks)
	var r []Req
	for _, n := range ks {
		r = append(r, s[n])
	}
	return r
}

func (s state) config() *project.Config {
	c := &project.Config{Requirements: map[string]project.RequirementConfig{}}
	for n, r := range s {
		c.Requirements[n] = project.RequirementConfig{Path: r.Path, Version: r.Version}
	}
	return c
}

// configOrdered inserts the requirements into the map in ascending (or descending) name
// order: the iteration order of a small Go map is a random rotation of its insertion order.
func (s state) configOrdered(desc bool) *project.Config {
	var ns []string
	for n := range s {
		ns = append(ns, n)
	}
	sort.Strings(ns)
	if desc {
		for i, j := 0, len(ns)-1; i < j; i, j = i+1, j-1 {
			ns[i], ns[j] = ns[j], ns[i]
		}
	}
	c := &project.Config{Requirements: map[string]project.RequirementConfig{}}
	for _, n := range ns {
		c.Requirements[n] = project.RequirementConfig{Path: s[n].Path, Version: s[n].Version}
	}
	return c
}

// dupGetSig: on a requirement set that names one project twice at different versions, a Get
// that returns the old requirement list verbatim (a project is added; or the requested version
// is already selected) lets transformReqs write the LAST listed version of that project under
// all of its names - which one is last is map iteration order. Everything that follows from it
// is reported under this one cause.
const dupGetSig = "C11:duplicate-root-path:get-writes-arbitrary-version"

func dupGet(s state, kind string) bool {
	// (the defect this folded every consequence under was repaired in /repo: consequences are
	// reported under their own signatures again)
	return false
}

// dupPath reports whether some project is required under more than one name.
func (s state) dupPath() bool {
	seen := map[string]bool{}
	for _, r := range s {
		if seen[r.Path] {
			return true
		}
		seen[r.Path] = true
	}
	return false
}

func (s state) hasPath(p string) (string, bool) {
	for n, r := range s {
		if r.Path == p {
			return n, true
		}
	}
	return "", false
}

type op struct {
	kind string // tidy upgrade-all get
	q    mvsfake.Query
	// spell != "": the same query with the project path spelled non-canonically (explicit
	// @v1/@v0 major, trailing slash, "./" inside); canon is the index of the canonical twin
	spell string
	canon int
}

// arg is the argument handed to Get.
func (o op) arg() string {
	q := o.q
	if o.spell != "" {
		q.Path = o.spell
	}
	return q.String()
}

// spellings lists non-canonical spellings of a module path.
func spellings(p string, v0 bool) []string {
	base, major := mvsfake.SplitMajor(p)
	suffix := ""
	if major != "" {
		suffix = "@" + major
	}
	var out []string
	if major == "" {
		out = append(out, base+"@v1")
		if v0 {
			out = append(out, base+"@v0")
		}
	}
	out = append(out, base+"/"+suffix)
	if k := strings.LastIndexByte(base, '/'); k > 0 {
		out = append(out, base[:k]+"/./"+base[k+1:]+suffix)
	}
	return out
}

func (o op) String() string {
	if o.kind == "get" {
		return "Get(" + o.arg() + ")"
	}
	return map[string]string{"tidy": "Tidy", "upgrade-all": "UpgradeAll"}[o.kind]
}

func qGroup(k string) string {
	switch k {
	case "none", "latest":
		return "latest"
	case "gt", "gte", "lt", "lte":
		return "range"
	case "branch", "rev":
		return "ref"
	}
	return k
}

type trans struct {
	status int
	err    string
	to     string
	kind   string // operation kind label, computed before running
	want   string // the version the query stands for in the graph oracles ("" = none)
	ref    string // reference resolution of the query
	bad    string // probe only: signature under which its query resolution was reported
}

type sinfo struct {
	s     state
	depth int
	via   []string // how it was reached (first path): operations from an initial state
	init  string   // key of the initial state it was reached from
	bl    map[string]string
	blErr string
	ref   *mvsfake.BuildInfo
	tr    map[int]*trans
	moved bool
}

type explorer struct {
	f      *fam
	ui     int64
	u      *mvsfake.Universe
	w      *mvsfake.World
	res    *mvs.Resolver
	t      *mvsfake.Tally
	g      *mvsfake.Guard
	ops    []op
	states map[string]*sinfo
	empty  *sinfo // the empty requirement set (query-resolution probe)
	ctx    context.Context
}

func (e *explorer) replayOf(si *sinfo, o op, extra map[string]any) func() any {
	return func() any {
		m := map[string]any{
			"family": e.f.name, "universe_index": e.ui, "universe": e.u.Compact(), "spec": e.u,
			"initial_requirements": e.states[si.init].s, "operations_before": si.via,
			"requirements": si.s, "build_list": mvsfake.FormatList(si.bl), "operation": o.String(),
		}
		for k, v := range extra {
			m[k] = v
		}
		return m
	}
}

func (e *explorer) size(si *sinfo) int {
	return 1000*len(si.via) + 10*e.u.Edges() + 3*len(si.s) + len(e.u.Repos)
}

// info returns the (memoised) state record, resolving its build list with the real BuildList
// and with the reference.
func (e *explorer) info(s state, depth int, from *sinfo, via string) *sinfo {
	k := s.key()
	if si, ok := e.states[k]; ok {
		return si
	}
	si := &sinfo{s: s, depth: depth, tr: map[int]*trans{}, init: k}
	if from != nil {
		si.init = from.init
		si.via = append(append([]string{}, from.via...), via)
	}
	e.states[k] = si
	e.t.Add("states", 1)
	si.ref = e.w.RefBuildList(s.roots())
	out, err, st := e.g.Run(e.t, "build-list", func() (any, error) { return mvs.BuildList(e.ctx, s.config(), e.res) })
	e.t.Add("evaluations", 1)
	switch {
	case st == mvsfake.Hung:
		si.blErr = "hang"
		e.t.Violation("C11:hang:build-list", e.size(si), fmt.Sprintf("BuildList(%v) did not return within 10s", s), e.replayOf(si, op{kind: "tidy"}, nil))
	case st == mvsfake.Skipped:
		si.blErr = "skipped"
	case err != nil:
		si.blErr = err.Error()
	default:
		si.bl = map[string]string{}
		for p, v := range out.(map[string]string) {
			if p != "" {
				si.bl[p] = v
			}
		}
	}
	return si
}

// independent: the query's answer does not depend on the current build list, so the version
// the implementation resolves it to is observable by Get on an empty requirement set.
func independent(k string) bool { return k != "upgrade" && k != "patch" }

// label computes the operation kind before the operation runs. For current-independent
// queries the direction (add/same/upgrade/downgrade) is taken relative to the version the
// implementation itself resolves the query to (probe = the same Get on the empty requirement
// set, where query resolution is checked against the reference on its own); otherwise
// relative to the reference resolution.
func (e *explorer) label(si *sinfo, oi int) (kind, use, ref string) {
	o := e.ops[oi]
	if o.kind != "get" {
		return o.kind, "", ""
	}
	ref, ok := e.w.Resolve(o.q, si.ref.List)
	use = ref
	if independent(o.q.Kind) && si != e.empty {
		pt := e.apply(e.empty, oi)
		switch {
		case pt.status != mvsfake.Done:
		case pt.err != "":
			if ok {
				return "get-unresolved", "", ref
			}
			return "get-nomatch", "", ""
		default:
			ps := e.states[pt.to].s
			if n, has := ps.hasPath(o.q.Path); has {
				use, ok = ps[n].Version, true
			}
		}
	}
	if !ok {
		return "get-nomatch", "", ""
	}
	cur, has := si.ref.List[o.q.Path]
	switch {
	case !has:
		return "get-add", use, ref
	case semver.Compare(use, cur) == 0:
		return "get-same", use, ref
	case semver.Compare(use, cur) > 0:
		return "get-upgrade", use, ref
	case e.w.DowngradeNeedsDrop(si.ref.List, o.q.Path, use):
		return "get-downgrade-drop", use, ref
	}
	return "get-downgrade", use, ref
}

// apply runs (memoised) one operation on one state.
func (e *explorer) apply(si *sinfo, oi int) *trans {
	if tr, ok := si.tr[oi]; ok {
		return tr
	}
	o := e.ops[oi]
	tr := &trans{}
	tr.kind, tr.want, tr.ref = e.label(si, oi)
	si.tr[oi] = tr
	cfg := si.s.config()
	runOp := func(cfg *project.Config) (any, error, int) {
		return e.g.Run(e.t, tr.kind, func() (any, error) {
			switch o.kind {
			case "tidy":
				return mvs.Tidy(e.ctx, cfg, e.res)
			case "upgrade-all":
				return mvs.UpgradeAll(e.ctx, cfg, e.res)
			}
			return mvs.Get(e.ctx, cfg, e.res, o.arg())
		})
	}
	dup := si.s.dupPath()
	if dup {
		cfg = si.s.configOrdered(false)
	}
	out, err, st := runOp(cfg)
	if dup && st == mvsfake.Done {
		// one project under several names: the same operation again with the requirement map
		// built in the opposite order (and a few more times) must give the same outcome
		render := func(out any, err error) string {
			if err != nil {
				return "error: " + err.Error()
			}
			ns := state{}
			for n, r := range out.(map[string]project.RequirementConfig) {
				ns[n] = Req{r.Path, r.Version}
			}
			return ns.key()
		}
		first := render(out, err)
		for rep := 0; rep < 3; rep++ {
			out2, err2, st2 := runOp(si.s.configOrdered(rep != 1))
			if st2 != mvsfake.Done {
				break
			}
			e.t.Add("evaluations", 1)
			e.t.Add("repetitions-with-a-project-named-twice", 1)
			if second := render(out2, err2); second != first {
				sig := "C11:duplicate-root-path:run-dependent"
				if dupGet(si.s, tr.kind) {
					sig = dupGetSig
				}
				e.t.Violation(sig, e.size(si), fmt.Sprintf("[%s #%d] %s on %v gives %s on one run and %s on another (only the order in which the requirement map was built differs)", e.f.name, e.ui, o, si.s, first, second),
					e.replayOf(si, o, map[string]any{"returned": first, "returned_on_another_run": second}))
				break
			}
		}
	}
	tr.status = st
	if st == mvsfake.Skipped {
		return tr
	}
	e.t.Add("evaluations", 1)
	e.t.Add("operations", 1)
	e.t.Add("operations:"+tr.kind, 1)
	switch st {
	case mvsfake.Hung:
		e.t.Violation("C11:hang:"+tr.kind, e.size(si), fmt.Sprintf("[%s #%d] %s on %v (build list %s) did not return within 10s", e.f.name, e.ui, o, si.s, mvsfake.FormatList(si.bl)),
			e.replayOf(si, o, map[string]any{"returned": "nothing within 10 s", "query_resolves_to": tr.want, "operation_kind": tr.kind}))
		return tr
	case mvsfake.Panicked:
		tr.err = err.Error()
		e.t.Violation("C11:panic:"+tr.kind, e.size(si), fmt.Sprintf("%s on %v: %v", o, si.s, err), e.replayOf(si, o, map[string]any{"returned": err.Error()}))
		return tr
	}
	if err != nil {
		tr.err = err.Error()
		return tr
	}
	ns := state{}
	for n, r := range out.(map[string]project.RequirementConfig) {
		ns[n] = Req{r.Path, r.Version}
	}
	tr.to = ns.key()
	if fmt.Sprint(cfg.Requirements) != fmt.Sprint(si.s.config().Requirements) {
		e.t.Add("input-config-mutated", 1) // informational: the caller's map was edited in place
	}
	e.info(ns, si.depth+1, si, o.String())
	if tr.to != si.s.key() {
		si.moved = true
	}
	return tr
}

func cmpList(a, b map[string]string) string {
	var ks []string
	for k := range a {
		ks = append(ks, k)
	}
	for k := range b {
		if _, ok := a[k]; !ok {
			ks = append(ks, k)
		}
	}
	sort.Strings(ks)
	for _, k := range ks {
		if a[k] != b[k] {
			return fmt.Sprintf("%s: %q vs %q", k, a[k], b[k])
		}
	}
	return ""
}

// check applies the oracle to one executed transition.
// checkSpelling: a non-canonical spelling of the project path must either be rejected or give
// exactly the requirement map of the canonical spelling (the canonical twin carries all the
// other oracles).
func (e *explorer) checkSpelling(si *sinfo, oi int) {
	o := e.ops[oi]
	tr := e.apply(si, oi)
	tc := e.apply(si, o.canon)
	class := func(c string) { e.t.Outcome("classes", fmt.Sprintf("spelling/%s/%s", qGroup(o.q.Kind), c)) }
	switch {
	case tr.status != mvsfake.Done:
		class("hang-or-skipped")
	case tr.err != "":
		class("rejected")
		e.t.Add("spellings-rejected", 1)
	case tc.status != mvsfake.Done:
		class("canonical-not-available")
	default:
		what := ""
		switch {
		case tc.err != "":
			what = fmt.Sprintf("returned %v although the canonical spelling %s fails: %s", e.states[tr.to].s, e.ops[o.canon], tc.err)
		case tc.to != tr.to:
			what = fmt.Sprintf("returned %v, the canonical spelling %s returns %v", e.states[tr.to].s, e.ops[o.canon], e.states[tc.to].s)
		}
		if what == "" {
			class("same-as-canonical")
			e.t.Add("spellings-agree", 1)
			return
		}
		class("differs")
		canon := any("error: " + tc.err)
		if tc.to != "" {
			canon = e.states[tc.to].s
		}
		sig := "C11:query-path-spelling"
		if dupGet(si.s, tr.kind) {
			sig = dupGetSig
		}
		e.t.Violation(sig, e.size(si), fmt.Sprintf("[%s #%d] %s on %v (build list %s): %s", e.f.name, e.ui, o, si.s, mvsfake.FormatList(si.bl), what),
			e.replayOf(si, o, map[string]any{"returned": e.states[tr.to].s, "returned_build_list": mvsfake.FormatList(e.states[tr.to].bl), "canonical_operation": e.ops[o.canon].String(), "canonical_result": canon}))
	}
}

func (e *explorer) check(si *sinfo, oi int) {
	o := e.ops[oi]
	if o.spell != "" {
		e.checkSpelling(si, oi)
		return
	}
	tr := e.apply(si, oi)
	group := o.kind
	if o.kind == "get" {
		group = qGroup(o.q.Kind)
	}
	class := func(c string) {
		e.t.Outcome("classes", fmt.Sprintf("%s/%s/%s", tr.kind, group, c))
	}
	switch tr.status {
	case mvsfake.Skipped:
		class("skipped-after-hang")
		return
	case mvsfake.Hung:
		class("hang")
		return
	case mvsfake.Panicked:
		class("panic")
		return
	}
	// a current-independent query whose resolution was already reported as wrong (at the
	// empty requirement set): what follows from the mis-resolved version is counted under
	// that cause, not as a separate one
	taint := func() string {
		if o.kind == "get" && independent(o.q.Kind) {
			if pt := e.empty.tr[oi]; pt != nil {
				return pt.bad
			}
		}
		return ""
	}
	viol := func(sig, what string, extra map[string]any) {
		if extra == nil {
			extra = map[string]any{}
		}
		if dupGet(si.s, tr.kind) {
			what = "(would be " + sig + ") " + what
			sig = dupGetSig
		} else if tainted := taint(); tainted != "" && tainted != sig {
			what = "(follows from the mis-resolved query; would be " + sig + ") " + what
			extra["consequence_signature"] = sig
			sig = tainted
			e.t.Add("consequences-of-misresolved-query", 1)
		}
		if tr.to != "" {
			extra["returned"] = e.states[tr.to].s
			extra["returned_build_list"] = mvsfake.FormatList(e.states[tr.to].bl)
		} else {
			extra["returned"] = "error: " + tr.err
		}
		extra["operation_kind"] = tr.kind
		extra["query_resolves_to"] = tr.want
		extra["reference_resolution"] = tr.ref
		e.t.Violation(sig, e.size(si), fmt.Sprintf("[%s #%d] %s on %v (build list %s): %s", e.f.name, e.ui, o, si.s, mvsfake.FormatList(si.bl), what), e.replayOf(si, o, extra))
	}
	want := tr.want
	// (a) query resolution on its own: Get on the empty requirement set returns exactly the
	// version the query was resolved to.
	if o.kind == "get" && independent(o.q.Kind) && si == e.empty {
		e.t.Add("query-resolutions-checked", 1)
		switch {
		case tr.err != "" && tr.kind == "get-nomatch":
		case tr.err != "":
			tr.bad = "C11:query-resolution:" + group
			viol(tr.bad, "failed: "+tr.err+"; the reference resolves the query to "+tr.ref, nil)
			class("error")
			return
		default:
			got := ""
			if n, ok := e.states[tr.to].s.hasPath(o.q.Path); ok {
				got = e.states[tr.to].s[n].Version
			}
			switch {
			case tr.kind == "get-nomatch":
				tr.bad = "C11:query-resolution:" + group
				viol(tr.bad, "resolved to "+got+" although no version satisfies the query", nil)
				class("result-for-unsatisfiable-query")
				return
			case !e.w.SameUntaggedRevision(o.q, tr.ref, got):
				sig := "C11:query-resolution:" + group
				if rev := e.w.RefRevision(o.q.Path, o.q.Arg); group == "ref" && rev != nil && got == e.w.OldestAncestorVersion(o.q.Path, rev) {
					sig = "C11:ref-query-oldest-ancestor"
				}
				viol(sig, fmt.Sprintf("the query resolved to %s, the reference resolves it to %s", got, tr.ref), nil)
				tr.bad = sig
			}
			if got != "" {
				want = got // (b) the graph oracles below are relative to the version actually resolved
			}
		}
	}
	if tr.err != "" {
		switch tr.kind {
		case "get-nomatch":
			class("error-expected")
		case "get-unresolved":
			class("error(query-resolution)") // reported once, at the empty requirement set
		default:
			class("error")
			viol("C11:"+tr.kind+":error", "failed: "+tr.err, nil)
		}
		return
	}
	ni := e.states[tr.to]
	if tr.kind == "get-nomatch" || tr.kind == "get-unresolved" {
		class("result-for-unsatisfiable-query")
		if tr.kind == "get-nomatch" {
			viol("C11:query-resolution:"+group, "returned requirements although no version satisfies the query", nil)
		}
		return
	}
	// the result must resolve, and the real and the reference resolution must agree
	if ni.blErr != "" {
		if ni.blErr != "skipped" && ni.blErr != "hang" {
			viol("C11:"+tr.kind+":result-does-not-resolve", "BuildList of the result fails: "+ni.blErr, nil)
		}
		class("result-unresolvable")
		return
	}
	if !ni.ref.OK {
		viol("C11:"+tr.kind+":result-requires-nonexistent-version", "the result requires a version that does not exist", nil)
		return
	}
	if d := cmpList(ni.bl, ni.ref.List); d != "" {
		viol("C11:build-list-mismatch", "BuildList of the result differs from the reference: "+d, map[string]any{"reference_build_list": mvsfake.FormatList(ni.ref.List)})
		return
	}
	if si.bl == nil {
		return
	}
	old, nw := si.bl, ni.bl
	changed := "unchanged"
	if tr.to != si.s.key() {
		changed = "changed"
		if len(ni.s) > len(si.s) {
			changed = "grew"
		} else if len(ni.s) < len(si.s) {
			changed = "shrank"
		}
	}
	class(changed)

	// collided: the project that vanished was to be written as a NEW requirement under the
	// same derived name (declared name, else last path element) as another new requirement
	// that is there: the two new names were not distinct and one entry overwrote the other.
	collided := func(lost string) (string, bool) {
		if _, was := si.s.hasPath(lost); was {
			return "", false
		}
		dn := e.w.ProjectName(Req{lost, old[lost]})
		if dn == "" {
			dn = natName(lost)
		} else if _, major := mvsfake.SplitMajor(lost); major != "" {
			dn += "@" + major
		}
		for n, r := range ni.s {
			if _, was := si.s.hasPath(r.Path); !was && r.Path != lost && n == dn {
				return fmt.Sprintf("; %s and %s are both new requirements that derive the name %q, only one entry was written", lost, r.Path, dn), true
			}
		}
		return "", false
	}
	lostPath := ""
	lowered := func(except string) string {
		var ks []string
		for p := range old {
			ks = append(ks, p)
		}
		sort.Strings(ks)
		for _, p := range ks {
			if p == except {
				continue
			}
			v, ok := nw[p]
			if !ok {
				lostPath = p
				return fmt.Sprintf("%s (was %s) is no longer in the build list", p, old[p])
			}
			if semver.Compare(v, old[p]) < 0 {
				return fmt.Sprintf("%s lowered from %s to %s", p, old[p], v)
			}
		}
		return ""
	}
	switch tr.kind {
	case "tidy":
		if d := cmpList(old, nw); d != "" {
			why, ok := "", false
			for p := range old {
				if _, has := nw[p]; !has && !ok {
					why, ok = collided(p)
				}
			}
			if ok {
				viol("C11:names:new-names-collide", "build list after Tidy differs: "+d+why, nil)
			} else {
				viol("C11:tidy:build-list-changed", "build list after Tidy differs: "+d, nil)
			}
		}
	case "upgrade-all":
		if d := lowered(""); d != "" {
			if why, ok := collided(lostPath); ok && lostPath != "" {
				viol("C11:names:new-names-collide", d+why, nil)
			} else {
				viol("C11:upgrade-all:lowers-project", d, nil)
			}
		} else {
			var ks []string
			for p := range old {
				ks = append(ks, p)
			}
			sort.Strings(ks)
			for _, p := range ks {
				if tgt := e.w.UpgradeTarget(p, old[p]); semver.Compare(nw[p], tgt) < 0 {
					viol("C11:upgrade-all:not-upgraded", fmt.Sprintf("%s stays at %s, the latest version is %s", p, nw[p], tgt), nil)
					break
				}
			}
		}
	case "get-add", "get-same", "get-upgrade", "get-downgrade", "get-downgrade-drop":
		p, v := o.q.Path, want
		got, has := nw[p]
		// for current-dependent queries (upgrade, patch) the version the operation resolved the
		// query to is visible when the result requires p directly
		direct := ""
		if n, ok := ni.s.hasPath(p); ok {
			direct = ni.s[n].Version
		}
		if tr.kind == "get-downgrade" || tr.kind == "get-downgrade-drop" {
			if has && semver.Compare(got, v) > 0 {
				viol("C11:"+tr.kind+":above-requested", fmt.Sprintf("%s is at %s after a downgrade to %s", p, got, v), nil)
			}
		} else {
			// achievable exactly? (does v transitively demand a newer version of p itself)
			with := e.w.RefBuildList(append(si.s.roots(), Req{p, v}))
			exact := with.List[p] == v
			switch {
			case !independent(o.q.Kind) && exact && has && got != v && direct != "" && direct != v:
				viol("C11:query-resolution:"+group, fmt.Sprintf("the query stands for %s, the result requires %s@%s", v, p, direct), nil)
			case !has:
				viol("C11:"+tr.kind+":resolved-version-not-selected", fmt.Sprintf("%s is not in the build list; the query stands for %s", p, v), nil)
			case semver.Compare(got, v) < 0 || (exact && got != v):
				viol("C11:"+tr.kind+":resolved-version-not-selected", fmt.Sprintf("%s is at %s; the query stands for %s", p, got, v), nil)
			default:
				if d := lowered(p); d != "" {
					if why, ok := collided(lostPath); ok && lostPath != "" {
						viol("C11:names:new-names-collide", d+why, nil)
					} else {
						viol("C11:"+tr.kind+":lowers-other-project", d, nil)
					}
				}
			}
		}
	}
	// names
	for n, r := range si.s {
		if n2, ok := ni.s.hasPath(r.Path); ok {
			if x, ok := ni.s[n]; !ok || x.Path != r.Path {
				viol("C11:names:not-preserved", fmt.Sprintf("requirement %q (%s) survives under the name %q", n, r.Path, n2), nil)
				break
			}
		}
	}
	seen := map[string]string{}
	for n, r := range ni.s {
		if m, dup := seen[r.Path]; dup {
			if a, b := si.s[m], si.s[n]; a.Path == r.Path && b.Path == r.Path {
				continue // both names already stood for this project
			}
			viol("C11:names:duplicate-path", fmt.Sprintf("%s is required twice, as %q and %q", r.Path, m, n), nil)
			break
		}
		seen[r.Path] = n
	}
	// idempotence: the same operation on its own result
	tr2 := e.apply(ni, oi)
	idemSig := "C11:" + tr.kind + "-not-idempotent"
	if o.kind == "get" && want != "" {
		// cause: the requested version itself (transitively) requires a newer version of the
		// same project, so it can never be the selected one
		if alone := e.w.RefBuildList([]Req{{o.q.Path, want}}); alone.List[o.q.Path] != want {
			idemSig = "C11:get-not-idempotent:version-requires-newer-self"
		}
	}
	switch {
	case tr2.status == mvsfake.Skipped || tr2.status == mvsfake.Hung || tr2.status == mvsfake.Panicked:
		e.t.Add("idempotence-not-checked(hang)", 1)
	case tr2.err != "":
		viol(idemSig, "repeating the operation on its own result fails: "+tr2.err, map[string]any{"second_application": "error: " + tr2.err})
	case tr2.to != tr.to:
		viol(idemSig, fmt.Sprintf("repeating the operation on its own result changes it again: %v -> %v", ni.s, e.states[tr2.to].s),
			map[string]any{"second_application": e.states[tr2.to].s, "second_build_list": mvsfake.FormatList(e.states[tr2.to].bl)})
	default:
		e.t.Add("idempotence-checked", 1)
	}
}

func (e *explorer) run(initial []state) {
	e.empty = e.info(state{}, 0, nil, "")
	queue := []*sinfo{e.empty}
	for _, s := range initial {
		k := s.key()
		if _, ok := e.states[k]; ok {
			continue
		}
		si := e.info(s, 0, nil, "")
		queue = append(queue, si)
		if si.bl != nil {
			if d := cmpList(si.bl, si.ref.List); d != "" {
				e.t.Violation("C11:build-list-mismatch", e.size(si), fmt.Sprintf("BuildList(%v) differs from the reference: %s", s, d), e.replayOf(si, op{kind: "tidy"}, nil))
			}
		} else if si.blErr != "skipped" && si.blErr != "hang" {
			e.t.Violation("C11:build-list-error", e.size(si), fmt.Sprintf("BuildList(%v): %s", s, si.blErr), e.replayOf(si, op{kind: "tidy"}, nil))
		}
	}
	expanded := map[string]bool{}
	for len(queue) > 0 {
		si := queue[0]
		queue = queue[1:]
		k := si.s.key()
		if expanded[k] || si.bl == nil {
			continue
		}
		expanded[k] = true
		e.t.Add("states-expanded", 1)
		for oi := range e.ops {
			e.check(si, oi)
			if tr := si.tr[oi]; tr.to != "" && e.ops[oi].spell == "" { // a spelled query's result is its canonical twin's, or a reported violation
				ni := e.states[tr.to]
				if !expanded[tr.to] && si.depth+1 < e.f.depth {
					queue = append(queue, ni)
				}
			}
		}
		if len(si.bl) >= 2 || si.moved {
			e.t.Add("nontrivial", 1)
		}
	}
}

// countSequences counts the operation sequences (length 1..depth, every proper prefix
// succeeded) that the explored state graph represents, over all initial states.
func (e *explorer) countSequences(initial []state) int64 {
	memo := map[string]int64{}
	var seqs func(k string, d int) int64
	seqs = func(k string, d int) int64 {
		mk := fmt.Sprintf("%d|%s", d, k)
		if v, ok := memo[mk]; ok {
			return v
		}
		n := int64(0)
		for _, tr := range e.states[k].tr {
			if tr.status == mvsfake.Skipped {
				continue
			}
			n++
			if tr.to != "" && d > 1 && len(e.states[tr.to].tr) > 0 {
				n += seqs(tr.to, d-1)
			}
		}
		memo[mk] = n
		return n
	}
	total := int64(0)
	seen := map[string]bool{}
	for _, s := range initial {
		if k := s.key(); !seen[k] {
			seen[k] = true
			total += seqs(k, e.f.depth)
		}
	}
	return total
}

func initialStates(f *fam) []state {
	var out []state
	idx := map[string]int{}
	for i, p := range f.paths {
		idx[p] = i
	}
	// a name already taken gets the suffix -1, -2, ... (projects may share their last path element)
	put := func(s state, name string, r Req) {
		for n, k := name, 1; ; n, k = fmt.Sprintf("%s-%d", name, k), k+1 {
			if _, taken := s[n]; !taken {
				s[n] = r
				return
			}
		}
	}
	for _, roots := range f.rootSets {
		s := state{}
		for _, r := range roots {
			put(s, natName(r.Path), r)
		}
		out = append(out, s)
		if f.rotated && len(roots) > 0 {
			s2 := state{}
			for _, r := range roots {
				put(s2, natName(f.paths[(idx[r.Path]+1)%len(f.paths)]), r)
			}
			out = append(out, s2)
		}
	}
	return out
}

type item struct {
	fam int
	ui  int64
}

func main() {
	r := vlib.Start("C11")
	if r.ReplayIn != "" {
		vlib.Fatalf("replay files are self-describing (universe + requirements + operation); re-run the tier to reproduce")
	}
	tmp := filepath.Join(r.Scratch, "tmp")
	os.MkdirAll(tmp, 0o755)
	os.Setenv("TMPDIR", tmp)

	two := func(d, a, b string) mvsfake.ProjectDef { return mvsfake.ProjectDef{Dir: d, Versions: []string{a, b}} }
	one := func(d, a string) mvsfake.ProjectDef { return mvsfake.ProjectDef{Dir: d, Versions: []string{a}} }
	named := func(p mvsfake.ProjectDef, n string) mvsfake.ProjectDef { p.Name = n; return p }
	pa, pb := two("a", "v1.2.0", "v1.10.0"), two("b", "v1.0.0-rc.1", "v1.0.0")
	depth := 2
	if r.Thorough() {
		depth = 3
	}
	fams := []*fam{
		familyT(depth),
		familyB(depth),
		generic(&mvsfake.Family{Name: "2x2", Addr: "example.com", Projects: []mvsfake.ProjectDef{pa, pb}}, 2, true, true, depth),
		generic(&mvsfake.Family{Name: "2x2 one repository per project, projects declare the same name", Addr: "example.com", Split: true,
			Projects: []mvsfake.ProjectDef{named(pa, "x"), named(pb, "x")}}, 2, true, true, depth),
		generic(&mvsfake.Family{Name: "majors c(v1.0.0 v1.1.0), c@v2(v2.0.0 v2.1.0)", Addr: "github.com/o/r",
			Projects: []mvsfake.ProjectDef{two("c", "v1.0.0", "v1.1.0"), two("c", "v2.0.0", "v2.1.0")}}, 2, false, true, depth),
		generic(&mvsfake.Family{Name: "majors, projects declare the same name", Addr: "github.com/o/r",
			Projects: []mvsfake.ProjectDef{named(two("c", "v1.0.0", "v1.1.0"), "x"), named(two("c", "v2.0.0", "v2.1.0"), "x")}}, 1, false, true, depth),
		generic(&mvsfake.Family{Name: "v0-v1 z(v0.9.0 v1.0.0), y", Addr: "example.com", Projects: []mvsfake.ProjectDef{two("z", "v0.9.0", "v1.0.0"), one("y", "v1.0.0")}}, 2, true, false, depth),
	}
	// three versions of one project: a downgrade can fall back to an earlier version instead of
	// having to drop a project
	f32 := &mvsfake.Family{Name: "3+2 a(v1.0.0 v1.1.0 v1.2.0), b(v1.0.0 v1.1.0)", Addr: "example.com",
		Projects: []mvsfake.ProjectDef{{Dir: "a", Versions: []string{"v1.0.0", "v1.1.0", "v1.2.0"}}, two("b", "v1.0.0", "v1.1.0")}}
	g32 := generic(f32, 1, false, false, depth)
	g32.rootSets = f32.RootSetsDup() // also: one project under two or three names at different versions (a hand-edited dawn.toml)
	fams = append(fams, g32, familyRC(depth))
	if r.Thorough() {
		fams = append(fams, generic(&mvsfake.Family{Name: "3x3 a,b(v1.0.0 v1.1.0 v1.2.0)", Addr: "example.com",
			Projects: []mvsfake.ProjectDef{{Dir: "a", Versions: []string{"v1.0.0", "v1.1.0", "v1.2.0"}}, {Dir: "b", Versions: []string{"v1.0.0", "v1.1.0", "v1.2.0"}}}}, 2, true, false, depth))
	}
	// two projects whose derived requirement name is the same (same last path element under
	// different prefixes; same declared name), required by some versions of a third project:
	// one operation then has to write two NEW direct requirements at once
	top := two("top", "v1.0.0", "v1.1.0")
	fams = append(fams,
		generic(&mvsfake.Family{Name: "colliding new names: top(2), left/util, right/util", Addr: "example.com",
			Projects: []mvsfake.ProjectDef{top, one("left/util", "v1.0.0"), one("right/util", "v1.0.0")}}, 1, false, true, depth),
		generic(&mvsfake.Family{Name: "colliding new names: top(2), p and q both declare the name common", Addr: "example.com",
			Projects: []mvsfake.ProjectDef{top, named(one("p", "v1.0.0"), "common"), named(one("q", "v1.0.0"), "common")}}, 1, false, false, depth))
	if r.Thorough() {
		fams = append(fams, generic(&mvsfake.Family{Name: "colliding new names: top(2), left/util(2), right/util, one repository per project", Addr: "example.com", Split: true,
			Projects: []mvsfake.ProjectDef{top, two("left/util", "v1.0.0", "v1.1.0"), one("right/util", "v1.0.0")}}, 1, false, false, depth))
	}
	bigLevel, bigRefs := 0, false
	if r.Thorough() {
		bigLevel, bigRefs = 2, true
	}
	big := generic(&mvsfake.Family{Name: "2x2+1", Addr: "example.com", Projects: []mvsfake.ProjectDef{pa, pb, one("c", "v1.0.0")}}, bigLevel, bigRefs, false, depth)
	big.noSpell = !r.Thorough()
	fams = append(fams, big)

	var perFam [][]item
	for fi, f := range fams {
		var l []item
		for ui := int64(0); ui < f.count; ui++ {
			l = append(l, item{fi, ui})
		}
		perFam = append(perFam, l)
	}
	// interleave: small families first (they carry the query semantics), the big one spread behind
	var items []item
	for fi := 0; fi < len(fams)-1; fi++ {
		items = append(items, perFam[fi]...)
	}
	items = append(items, perFam[len(fams)-1]...)

	hangCap := 1
	if r.Thorough() {
		hangCap = 3
	}
	g := mvsfake.NewGuard(r, "C11", 10*time.Second, hangCap)
	r.OnCrash = g.OnCrash(func(idx int) any {
		it := items[idx]
		return map[string]any{"family": fams[it.fam].name, "universe_index": it.ui, "universe": fams[it.fam].universe(it.ui).Compact()}
	})
	inits := make([][]state, len(fams))
	opsOf := make([][]op, len(fams))
	for i, f := range fams {
		inits[i] = initialStates(f)
		opsOf[i] = []op{{kind: "tidy"}, {kind: "upgrade-all"}}
		for _, q := range f.queries {
			opsOf[i] = append(opsOf[i], op{kind: "get", q: q})
		}
		if f.noSpell {
			continue
		}
		// non-canonical spellings: every latest/upgrade/patch/ref query, and the first version,
		// range and prefix query of each path
		v0 := map[string]bool{}
		for _, q := range f.queries {
			if q.Kind == "exact" && semver.Major(q.Arg) == "v0" {
				v0[q.Path] = true
			}
		}
		seen := map[string]bool{}
		n := len(opsOf[i])
		for ci := 2; ci < n; ci++ {
			q := opsOf[i][ci].q
			switch q.Kind {
			case "none", "latest", "upgrade", "patch", "branch", "rev":
			default:
				if seen[q.Path+" "+q.Kind] {
					continue
				}
				seen[q.Path+" "+q.Kind] = true
			}
			for _, sp := range spellings(q.Path, v0[q.Path]) {
				opsOf[i] = append(opsOf[i], op{kind: "get", q: q, spell: sp, canon: ci})
			}
		}
	}
	ctx := context.Background()
	r.Distribute(len(items), func(ii int) {
		it := items[ii]
		f := fams[it.fam]
		t := mvsfake.NewTally()
		g.BeginItem(ii)
		defer g.EndItem(t)
		if r.Expired() {
			t.Add("universes-not-run(time)", 1)
			r.Cap("time budget reached before all universes were explored (see counters universes / universes-not-run(time))")
			return
		}
		u := f.universe(it.ui)
		cacheDir := filepath.Join(r.Scratch, "cache")
		os.RemoveAll(cacheDir)
		os.MkdirAll(cacheDir, 0o755)
		w := mvsfake.Build(u)
		e := &explorer{f: f, ui: it.ui, u: u, w: w, res: mvs.NewResolver(cacheDir, w.Dialer(), nil), t: t, g: g, ops: opsOf[it.fam], states: map[string]*sinfo{}, ctx: ctx}
		e.run(inits[it.fam])
		t.Add("sequences", e.countSequences(inits[it.fam]))
		t.Add("universes", 1)
		t.Add("universes:"+f.name, 1)
		t.Max("states-per-universe", int64(len(e.states)))
		if it.ui%997 == 5 {
			t.Sample(map[string]any{"family": f.name, "universe": u.Compact(), "initial_states": len(inits[it.fam]), "operations": len(e.ops), "states_reached": len(e.states)})
		}
	})
	if r.Get("skipped-after-hang") > 0 {
		r.Cap(fmt.Sprintf("%d operations were skipped because operations of their kind had hung", r.Get("skipped-after-hang")))
	}
	mvsfake.EmitViolations(r)
	bounds := map[string]any{"sequence_length": depth}
	for i, f := range fams {
		var qs []string
		for _, o := range opsOf[i] {
			qs = append(qs, o.String())
		}
		bounds[f.name] = map[string]any{"universes": f.count, "initial_requirement_sets": len(inits[i]), "operations": len(opsOf[i]), "operation_list": strings.Join(qs, " ")}
	}
	r.Extra["operations_skipped_after_hang"] = r.Get("skipped-after-hang")
	r.Extra["operations_hung"] = r.Get("hangs")
	r.Extra["worker_restarts_after_hang"] = r.Get("worker-restarts-after-hang")
	r.Extra["idempotence_checked"] = r.Get("idempotence-checked")
	r.Extra["path_spellings_same_as_canonical"] = r.Get("spellings-agree")
	r.Extra["path_spellings_rejected"] = r.Get("spellings-rejected")
	r.Extra["sequences_covered"] = r.Get("sequences")
	r.Extra["outcome_classes"] = r.Outcomes("classes")
	r.Assumptions = []string{
		"non-canonical spellings of a project path (explicit @v1/@v0 major, trailing slash, \"./\" before the last element; alone and followed by @<query>) are tried for every latest/upgrade/patch/branch/revision query and the first exact, range and prefix query of each path: the result must be an error or exactly the requirement map the canonical spelling returns",
		"an operation is a function of (universe, requirement map): sequences are explored as a state graph, a requirement map reached twice is expanded once (resolver memo tables and the download cache are shared inside one universe; C10 covers their independence)",
		"query reference: latest/no version = highest release tag of the path (v0/v1 share a path, vN>=2 is path@vN), else highest pre-release, else pseudo-version of the default branch head; upgrade = latest but never below current; patch = highest release with current's major.minor, never below current; exact = that tag; prefix vX.Y = highest release vX.Y.*, else highest pre-release; >,>=,<,<= = highest tag satisfying the comparison (pre-releases ordered by semver); branch/revision = the tag on exactly that revision, else a pseudo-version on the closest tagged ancestor",
		"upgrade oracle: build list has the resolved version exactly when that is achievable (the version does not itself demand a newer version of the project), otherwise at least it; no other project missing or lower. downgrade oracle: project absent or at/below the requested version. a requirement whose path survives keeps its name; idempotence = the same operation applied to its own result returns the same map",
		"an operation that does not return within 10 s (normal cost ~1 ms) is a hang; after a hang of one operation kind the remaining operations of that kind in the universe are skipped, and after hangs in " + fmt.Sprint(hangCap) + " universes per worker process the kind is skipped in that worker (counted in operations_skipped_after_hang)",
		"operation kinds (get-add, get-same, get-upgrade, get-downgrade, get-downgrade-drop = the reference predicts that some project has no admissible version left and must be dropped) are computed from the reference before the operation runs",
	}
	r.Finish(vlib.Coverage{
		Evaluations:        r.Get("evaluations"),
		DistinctNontrivial: r.Get("nontrivial"),
		Rule:               "every universe of each family x every initial requirement set x every operation sequence up to the bound, as a state graph; non-trivial = (universe, requirement map) states whose build list selects >= 2 projects or on which some operation changed the requirements; evaluations = Tidy/UpgradeAll/Get calls + BuildList re-resolutions",
		States:             r.Get("states"),
		Transitions:        r.Get("operations"),
		Exhaustive:         true,
		Outcomes:           r.NumOutcomes("classes"),
		Bounds:             bounds,
	})
}
