// C07 — the pickle codec round-trips every value exactly.
// Bounded-exhaustive enumeration of values (integers across every width class, strings and
// bytes across every length class, a container grammar, batch boundaries at every nesting
// position, all small aliasing graphs, host-pickled objects) through the real
// Encoder/Decoder and through a scaled clone (batch size 1000 -> 3), compared by a
// structural-isomorphism oracle that also compares Go types and the aliasing of mutable
// containers.
package main

import (
	"bytes"
	"errors"
	"fmt"
	"math"
	"math/big"
	"reflect"
	"strings"

	pickle3 "github.com/pgavlin/dawn/internal/verif/pickle3"
	"github.com/pgavlin/dawn/internal/verif/vlib"
	"github.com/pgavlin/dawn/pickle"
	"go.starlark.net/starlark"
)

// ---- host objects ---------------------------------------------------------------------------

type hostObj struct {
	args starlark.Tuple
}

func (h *hostObj) String() string        { return "host(...)" }
func (h *hostObj) Type() string          { return "host" }
func (h *hostObj) Freeze()               {}
func (h *hostObj) Truth() starlark.Bool  { return true }
func (h *hostObj) Hash() (uint32, error) { return 7, nil }

var errCannot = errors.New("cannot")

// recMark is what a re-entrant visit of a host object decodes to (cf. dawn's environment
// pickler, which pickles the inner visit of a self-referential function as a reference by name).
type recMark struct{}

func (*recMark) String() string        { return "rec" }
func (*recMark) Type() string          { return "rec" }
func (*recMark) Freeze()               {}
func (*recMark) Truth() starlark.Bool  { return true }
func (*recMark) Hash() (uint32, error) { return 9, nil }

// newHostPickler returns the pickler for one encoding: a host object reached again while its
// own arguments are being encoded (the encoder memoises it only afterwards) is pickled as a
// placeholder, exactly like dawn's newEnvPickler does for recursive functions.
func newHostPickler() func(x starlark.Value) (string, string, starlark.Tuple, error) {
	visited := map[*hostObj]bool{}
	return func(x starlark.Value) (string, string, starlark.Tuple, error) {
		if h, ok := x.(*hostObj); ok {
			if visited[h] {
				return "test", "Rec", starlark.Tuple{}, nil
			}
			visited[h] = true
			return "test", "Obj", h.args, nil
		}
		return "", "", nil, errCannot
	}
}

func hostUnpickler(module, name string, args starlark.Tuple) (starlark.Value, error) {
	if module == "test" && name == "Rec" {
		return &recMark{}, nil
	}
	if module != "test" || name != "Obj" {
		return nil, fmt.Errorf("unknown %s.%s", module, name)
	}
	return &hostObj{args: args}, nil
}

// ---- codecs (real package and scaled clone) -------------------------------------------------

type codec struct {
	name  string
	batch int
	rt    func(v starlark.Value) (starlark.Value, []byte, error, error)
}

var codecs = []codec{
	{"pickle", 1000, func(v starlark.Value) (starlark.Value, []byte, error, error) {
		var buf bytes.Buffer
		hostPickler := newHostPickler()
		err := pickle.NewEncoder(&buf, pickle.PicklerFunc(func(x starlark.Value) (string, string, starlark.Tuple, error) {
			m, n, a, e := hostPickler(x)
			if e == errCannot {
				e = pickle.ErrCannotPickle
			}
			return m, n, a, e
		})).Encode(v)
		if err != nil {
			return nil, nil, err, nil
		}
		enc := append([]byte{}, buf.Bytes()...)
		out, derr := pickle.NewDecoder(&buf, pickle.UnpicklerFunc(hostUnpickler)).Decode()
		return out, enc, nil, derr
	}},
	{"pickle-batch3", 3, func(v starlark.Value) (starlark.Value, []byte, error, error) {
		var buf bytes.Buffer
		hostPickler := newHostPickler()
		err := pickle3.NewEncoder(&buf, pickle3.PicklerFunc(func(x starlark.Value) (string, string, starlark.Tuple, error) {
			m, n, a, e := hostPickler(x)
			if e == errCannot {
				e = pickle3.ErrCannotPickle
			}
			return m, n, a, e
		})).Encode(v)
		if err != nil {
			return nil, nil, err, nil
		}
		enc := append([]byte{}, buf.Bytes()...)
		out, derr := pickle3.NewDecoder(&buf, pickle3.UnpicklerFunc(hostUnpickler)).Decode()
		return out, enc, nil, derr
	}},
}

// ---- isomorphism oracle -----------------------------------------------------------------------

type isoState struct {
	fwd, rev map[any]any
	open     map[*hostObj]bool // host objects whose arguments are being compared
}

func (s *isoState) alias(a, b any, path string) (seen bool, err error) {
	if x, ok := s.fwd[a]; ok {
		if x != b {
			return true, fmt.Errorf("%s: sharing differs (object shared in the input maps to distinct objects)", path)
		}
		return true, nil
	}
	if _, ok := s.rev[b]; ok {
		return true, fmt.Errorf("%s: sharing differs (distinct input objects decode to one shared object)", path)
	}
	s.fwd[a], s.rev[b] = b, a
	return false, nil
}

func (s *isoState) iso(a, b starlark.Value, path string) error {
	if b == nil {
		return fmt.Errorf("%s: decoded nil", path)
	}
	if h, ok := a.(*hostObj); ok {
		if _, isMark := b.(*recMark); isMark {
			// a placeholder is right exactly where the input refers to a host object from inside
			// its own arguments
			if s.open[h] {
				return nil
			}
			return fmt.Errorf("%s: a host object that is not being rebuilt decoded as a recursion placeholder", path)
		}
		if s.open[h] {
			return fmt.Errorf("%s: reference to a host object from inside its own arguments did not decode as the placeholder", path)
		}
	}
	if reflect.TypeOf(a) != reflect.TypeOf(b) {
		return fmt.Errorf("%s: type %T decoded as %T", path, a, b)
	}
	switch a := a.(type) {
	case starlark.NoneType:
		return nil
	case starlark.Bool:
		if a != b.(starlark.Bool) {
			return fmt.Errorf("%s: bool differs", path)
		}
	case starlark.Int:
		if a.BigInt().Cmp(b.(starlark.Int).BigInt()) != 0 {
			return fmt.Errorf("%s: int %v decoded as %v {cause=%s}", path, a, b, intClass(a.BigInt()))
		}
	case starlark.Float:
		if math.Float64bits(float64(a)) != math.Float64bits(float64(b.(starlark.Float))) {
			return fmt.Errorf("%s: float bits differ %v vs %v", path, a, b)
		}
	case starlark.String:
		if a != b.(starlark.String) {
			return fmt.Errorf("%s: string of length %d decoded as string of length %d", path, len(a), len(b.(starlark.String)))
		}
	case starlark.Bytes:
		if a != b.(starlark.Bytes) {
			return fmt.Errorf("%s: bytes differ", path)
		}
	case starlark.Tuple:
		bt := b.(starlark.Tuple)
		if len(a) != len(bt) {
			return fmt.Errorf("%s: tuple of %d decoded as tuple of %d", path, len(a), len(bt))
		}
		for i := range a {
			if err := s.iso(a[i], bt[i], fmt.Sprintf("%s.%d", path, i)); err != nil {
				return err
			}
		}
	case *starlark.List:
		bl := b.(*starlark.List)
		if seen, err := s.alias(a, bl, path); seen || err != nil {
			return err
		}
		if a.Len() != bl.Len() {
			return fmt.Errorf("%s: list of %d decoded as list of %d", path, a.Len(), bl.Len())
		}
		for i := 0; i < a.Len(); i++ {
			if err := s.iso(a.Index(i), bl.Index(i), fmt.Sprintf("%s[%d]", path, i)); err != nil {
				return err
			}
		}
	case *starlark.Dict:
		bd := b.(*starlark.Dict)
		if seen, err := s.alias(a, bd, path); seen || err != nil {
			return err
		}
		ai, bi := a.Items(), bd.Items()
		if len(ai) != len(bi) {
			return fmt.Errorf("%s: dict of %d decoded as dict of %d", path, len(ai), len(bi))
		}
		for i := range ai {
			if err := s.iso(ai[i][0], bi[i][0], fmt.Sprintf("%s{key %d}", path, i)); err != nil {
				return err
			}
			if err := s.iso(ai[i][1], bi[i][1], fmt.Sprintf("%s{val %d}", path, i)); err != nil {
				return err
			}
		}
	case *starlark.Set:
		bs := b.(*starlark.Set)
		if seen, err := s.alias(a, bs, path); seen || err != nil {
			return err
		}
		ae, be := a.Elems(), bs.Elems()
		if len(ae) != len(be) {
			return fmt.Errorf("%s: set of %d decoded as set of %d", path, len(ae), len(be))
		}
		for i := range ae {
			if err := s.iso(ae[i], be[i], fmt.Sprintf("%s<%d>", path, i)); err != nil {
				return err
			}
		}
	case *hostObj:
		bh := b.(*hostObj)
		if seen, err := s.alias(a, bh, path); seen || err != nil {
			return err
		}
		s.open[a] = true
		err := s.iso(a.args, bh.args, path+".args")
		delete(s.open, a)
		return err
	default:
		return fmt.Errorf("%s: oracle does not know %T", path, a)
	}
	return nil
}

// ---- test cases ---------------------------------------------------------------------------------

type testCase struct {
	desc  string
	class string // cause class for the signature
	build func() starlark.Value
}

func intClass(i *big.Int) string {
	switch {
	case i.Sign() >= 0 && i.Cmp(big.NewInt(256)) < 0:
		return "int:1-byte"
	case i.Sign() >= 0 && i.Cmp(big.NewInt(65536)) < 0:
		return "int:2-byte"
	case i.IsInt64() && i.Int64() >= math.MinInt32 && i.Int64() <= math.MaxInt32:
		return "int:4-byte"
	}
	return "int:text"
}

func mkList(elems ...starlark.Value) *starlark.List { return starlark.NewList(elems) }

func mkBig(kind string, n int) starlark.Value {
	switch kind {
	case "list":
		el := make([]starlark.Value, n)
		for i := range el {
			el[i] = starlark.MakeInt(i)
		}
		return starlark.NewList(el)
	case "dict":
		d := starlark.NewDict(n)
		for i := 0; i < n; i++ {
			d.SetKey(starlark.MakeInt(i), starlark.MakeInt(i*7))
		}
		return d
	case "set":
		s := starlark.NewSet(n)
		for i := 0; i < n; i++ {
			s.Insert(starlark.MakeInt(i))
		}
		return s
	case "tuple":
		el := make(starlark.Tuple, n)
		for i := range el {
			el[i] = starlark.MakeInt(i)
		}
		return el
	}
	panic(kind)
}

// hosts places a value at every nesting position of a small container of every kind.
func hosts(inner func() starlark.Value) []testCase {
	S := func(s string) starlark.Value { return starlark.String(s) }
	return []testCase{
		{"tuple1(x)", "", func() starlark.Value { return starlark.Tuple{inner()} }},
		{"tuple2(x,'s')", "", func() starlark.Value { return starlark.Tuple{inner(), S("s")} }},
		{"tuple2('s',x)", "", func() starlark.Value { return starlark.Tuple{S("s"), inner()} }},
		{"tuple3('a','b',x)", "", func() starlark.Value { return starlark.Tuple{S("a"), S("b"), inner()} }},
		{"tuple5(..x..)", "", func() starlark.Value {
			return starlark.Tuple{S("a"), S("b"), inner(), S("c"), S("d")}
		}},
		{"list[x]", "", func() starlark.Value { return mkList(inner()) }},
		{"list['s',x]", "", func() starlark.Value { return mkList(S("s"), inner()) }},
		{"list[x,'s']", "", func() starlark.Value { return mkList(inner(), S("s")) }},
		{"dict{'k':x}", "", func() starlark.Value {
			d := starlark.NewDict(1)
			d.SetKey(S("k"), inner())
			return d
		}},
		{"dict{'a':1,'k':x,'z':2}", "", func() starlark.Value {
			d := starlark.NewDict(3)
			d.SetKey(S("a"), starlark.MakeInt(1))
			d.SetKey(S("k"), inner())
			d.SetKey(S("z"), starlark.MakeInt(2))
			return d
		}},
		{"host(x)", "", func() starlark.Value { return &hostObj{starlark.Tuple{inner()}} }},
		{"host('m',x,'n')", "", func() starlark.Value { return &hostObj{starlark.Tuple{S("m"), inner(), S("n")}} }},
		{"list[host(x)]", "", func() starlark.Value { return mkList(&hostObj{starlark.Tuple{inner()}}) }},
		{"list[x,x] (same object twice)", "", func() starlark.Value { v := inner(); return mkList(v, v) }},
		{"list[list[x]]", "", func() starlark.Value { return mkList(mkList(inner())) }},
	}
}

func leaves() []func() starlark.Value {
	mk := func(v starlark.Value) func() starlark.Value { return func() starlark.Value { return v } }
	big1, _ := new(big.Int).SetString("18446744073709551617", 10)
	return []func() starlark.Value{
		mk(starlark.None), mk(starlark.True), mk(starlark.MakeInt(0)), mk(starlark.MakeInt(255)), mk(starlark.MakeInt(256)),
		mk(starlark.MakeInt(-1)), mk(starlark.MakeInt(70000)), mk(starlark.MakeBigInt(big1)), mk(starlark.Float(1.5)),
		mk(starlark.String("s")), mk(starlark.String("")), mk(starlark.Bytes("b")),
	}
}

// containers builds every container of the given kinds with 0..maxN elements from pool.
func containers(pool []func() starlark.Value, hashable []bool, maxN int, add func(desc string, b func() starlark.Value)) {
	var idx []int
	var rec func(n int)
	emit := func() {
		sel := append([]int{}, idx...)
		name := fmt.Sprint(sel)
		build := func() []starlark.Value {
			vs := make([]starlark.Value, len(sel))
			for i, s := range sel {
				vs[i] = pool[s]()
			}
			return vs
		}
		add("tuple"+name, func() starlark.Value { return starlark.Tuple(build()) })
		add("list"+name, func() starlark.Value { return starlark.NewList(build()) })
		allHash, distinct := true, true
		seen := map[int]bool{}
		for _, s := range sel {
			allHash = allHash && hashable[s]
			if seen[s] {
				distinct = false
			}
			seen[s] = true
		}
		if allHash && distinct {
			add("set"+name, func() starlark.Value {
				st := starlark.NewSet(len(sel))
				for _, v := range build() {
					if err := st.Insert(v); err != nil {
						panic(err)
					}
				}
				return st
			})
			// dict: keys = selection, values = the reversed selection (so values include unhashables elsewhere)
			add("dict"+name, func() starlark.Value {
				d := starlark.NewDict(len(sel))
				vs := build()
				for i, k := range vs {
					if err := d.SetKey(k, vs[len(vs)-1-i]); err != nil {
						panic(err)
					}
				}
				return d
			})
		}
	}
	rec = func(n int) {
		emit()
		if n == maxN {
			return
		}
		for i := range pool {
			idx = append(idx, i)
			rec(n + 1)
			idx = idx[:len(idx)-1]
		}
	}
	rec(0)
}

func allCases(thorough bool, c codec) []testCase {
	var cases []testCase
	add := func(desc, class string, b func() starlark.Value) {
		cases = append(cases, testCase{desc, class, b})
	}
	if c.batch == 1000 {
		// (1) integers
		lim := 70000
		if thorough {
			lim = 1 << 21 // crosses 2^16 and 2^20 in both directions
		}
		for i := -lim; i <= lim; i++ {
			i := i
			add(fmt.Sprintf("int %d", i), intClass(big.NewInt(int64(i))), func() starlark.Value { return starlark.MakeInt(i) })
		}
		for _, e := range []uint{31, 32, 63, 64} {
			for _, sgn := range []int64{1, -1} {
				for d := int64(-2); d <= 2; d++ {
					v := new(big.Int).Lsh(big.NewInt(1), e)
					v.Mul(v, big.NewInt(sgn))
					v.Add(v, big.NewInt(d))
					add(fmt.Sprintf("int %v", v), intClass(v), func() starlark.Value { return starlark.MakeBigInt(v) })
				}
			}
		}
		// (2) floats
		for _, f := range []float64{0, math.Copysign(0, -1), 1, -1, 0.1, math.SmallestNonzeroFloat64, math.MaxFloat64, math.Inf(1), math.Inf(-1), math.NaN(), 1 << 53, 1<<53 + 2, 1e300, -2147483648, 70000} {
			f := f
			add(fmt.Sprintf("float %v", f), "float", func() starlark.Value { return starlark.Float(f) })
		}
		// (3) strings and bytes
		for _, n := range []int{0, 1, 2, 255, 256, 257, 65535, 65536, 70000} {
			for _, unit := range []string{"a", "é", "\xff", "\x00", "\n", "😀"} {
				s := strings.Repeat(unit, n/len(unit)+1)[:n]
				cls := "len<256"
				if n >= 256 {
					cls = "len>=256"
				}
				add(fmt.Sprintf("str len %d of %q", n, unit), "string:"+cls, func() starlark.Value { return starlark.String(s) })
				add(fmt.Sprintf("bytes len %d of %q", n, unit), "bytes:"+cls, func() starlark.Value { return starlark.Bytes(s) })
			}
		}
	}
	// (4) container grammar
	lv := leaves()
	hash0 := make([]bool, len(lv))
	for i := range hash0 {
		hash0[i] = true
	}
	maxN := 3
	if thorough {
		maxN = 4
	}
	if c.batch == 3 {
		maxN = 4 // crosses the scaled batch boundary
		lv = lv[:6]
		hash0 = hash0[:6]
	}
	var depth1 []testCase
	containers(lv, hash0, maxN, func(desc string, b func() starlark.Value) {
		add("d1 "+desc, "structure", b)
		depth1 = append(depth1, testCase{desc, "", b})
	})
	// depth 2: pool = a few leaves + representative depth-1 containers of each kind and size
	reps := []func() starlark.Value{lv[0], lv[3], lv[4], lv[len(lv)-1]}
	hash1 := []bool{true, true, true, true}
	pick := map[string]bool{}
	for _, d := range depth1 {
		kind := d.desc[:strings.IndexByte(d.desc, '[')]
		n := strings.Count(d.desc, " ") + 1
		if d.desc[len(kind):] == "[]" {
			n = 0
		}
		key := fmt.Sprintf("%s/%d", kind, n)
		if !pick[key] && n <= 2 {
			pick[key] = true
			reps = append(reps, d.build)
			hash1 = append(hash1, kind == "tuple")
		}
	}
	max2 := 3
	if !thorough {
		max2 = 2
	}
	var depth2 []testCase
	containers(reps, hash1, max2, func(desc string, b func() starlark.Value) {
		add("d2 "+desc, "structure", b)
		depth2 = append(depth2, testCase{desc, "", b})
	})
	if thorough {
		reps3 := []func() starlark.Value{lv[1], lv[4]}
		hash2 := []bool{true, true}
		for i, d := range depth2 {
			if i%97 == 5 && len(reps3) < 10 {
				reps3 = append(reps3, d.build)
				hash2 = append(hash2, strings.HasPrefix(d.desc, "tuple") && !strings.ContainsAny(d.desc, "456789"))
			}
		}
		for i := range hash2 {
			if i >= 2 {
				hash2[i] = false
			}
		}
		containers(reps3, hash2, 2, func(desc string, b func() starlark.Value) { add("d3 "+desc, "structure", b) })
	}
	// (5) batch boundaries, flat, self-containing and nested at every position
	B := c.batch
	sizes := []int{B - 1, B, B + 1, 2*B + 1}
	if thorough || B == 3 {
		sizes = []int{B - 1, B, B + 1, 2*B - 1, 2 * B, 2*B + 1, 3*B + 1}
	}
	for _, kind := range []string{"list", "dict", "set", "tuple"} {
		for _, n := range sizes {
			kind, n := kind, n
			add(fmt.Sprintf("flat %s of %d", kind, n), "batch:"+kind+":flat", func() starlark.Value { return mkBig(kind, n) })
			if kind == "list" || kind == "dict" {
				add(fmt.Sprintf("self-containing %s of %d", kind, n), "batch:"+kind+":self", func() starlark.Value {
					v := mkBig(kind, n)
					switch v := v.(type) {
					case *starlark.List:
						v.Append(v)
					case *starlark.Dict:
						v.SetKey(starlark.String("self"), v)
					}
					return v
				})
			}
			for _, h := range hosts(func() starlark.Value { return mkBig(kind, n) }) {
				add(fmt.Sprintf("%s with x=%s of %d", h.desc, kind, n), "batch:"+kind+":nested", h.build)
			}
		}
	}
	// host positions with small payloads
	for i, l := range lv {
		for _, h := range hosts(l) {
			add(fmt.Sprintf("%s with x=leaf%d", h.desc, i), "host", h.build)
		}
	}
	// (5b) memo identifiers across the 1-byte / 4-byte back-reference boundary: N distinct
	// memoised containers followed by a second reference to the k-th one
	if c.batch == 1000 {
		ns := []int{250, 257, 300}
		if thorough {
			ns = []int{250, 257, 300, 65600}
		}
		for _, n := range ns {
			ks := []int{0, 1, 127, 128, 253, 254, 255, 256, 257, 258, n - 1}
			if n > 65536 {
				ks = append(ks, 65533, 65534, 65535, 65536, 65537)
			}
			for _, k := range ks {
				if k >= n {
					continue
				}
				for _, kind := range []string{"list", "dict"} {
					n, k, kind := n, k, kind
					add(fmt.Sprintf("%d memoised %ss then a second reference to #%d", n, kind, k), "memo-id-width", func() starlark.Value {
						outer := starlark.NewList(nil)
						var kth starlark.Value
						for i := 0; i < n; i++ {
							var el starlark.Value
							if kind == "list" {
								el = starlark.NewList([]starlark.Value{starlark.MakeInt(i)})
							} else {
								d := starlark.NewDict(1)
								d.SetKey(starlark.String("i"), starlark.MakeInt(i))
								el = d
							}
							if i == k {
								kth = el
							}
							outer.Append(el)
						}
						outer.Append(kth)
						outer.Append(outer) // and one to the outermost container (memo id 0)
						return outer
					})
				}
			}
		}
	}
	// (5c) tuples that share storage without being the same value: a tuple and slices of it with
	// the same start (t[:k]), a later start (t[j:]) and the whole (t[:]) in one value, in every
	// order and at three nesting positions (what identifies a tuple is not where it starts)
	{
		base := starlark.Tuple{starlark.MakeInt(1), starlark.MakeInt(2), starlark.MakeInt(3), starlark.String("x")}
		views := []struct {
			name string
			t    starlark.Tuple
		}{{"t", base}, {"t[:3]", base[:3]}, {"t[:2]", base[:2]}, {"t[:1]", base[:1]}, {"t[1:]", base[1:]}, {"t[1:3]", base[1:3]}, {"t[:]", base[:]}, {"t[:0]", base[:0]}}
		for _, a := range views {
			for _, b := range views {
				a, b := a, b
				add("list of "+a.name+" and "+b.name, "tuple-views", func() starlark.Value {
					return starlark.NewList([]starlark.Value{a.t, b.t})
				})
				add("tuple of "+a.name+" and "+b.name+" and the first again", "tuple-views", func() starlark.Value {
					return starlark.Tuple{a.t, b.t, a.t}
				})
				add("dict with values "+a.name+" and "+b.name, "tuple-views", func() starlark.Value {
					d := starlark.NewDict(2)
					d.SetKey(starlark.String("a"), a.t)
					d.SetKey(starlark.String("b"), starlark.NewList([]starlark.Value{b.t}))
					return d
				})
			}
		}
	}
	// (5d) a str and a bytes with byte-identical content in one value, at several length classes and
	// positions (text and bytes of equal content are different values)
	for _, n := range []int{0, 1, 15, 16, 17, 255, 256, 300} {
		content := strings.Repeat("s", n)
		n := n
		for _, order := range []bool{true, false} {
			order := order
			pair := func() (starlark.Value, starlark.Value) {
				if order {
					return starlark.String(content), starlark.Bytes(content)
				}
				return starlark.Bytes(content), starlark.String(content)
			}
			add(fmt.Sprintf("tuple of str and bytes of equal content, %d bytes, str first=%v", n, order), "str-bytes-same-content", func() starlark.Value {
				a, b := pair()
				return starlark.Tuple{a, b, a}
			})
			add(fmt.Sprintf("list holding one and dict keyed by the other, %d bytes, str first=%v", n, order), "str-bytes-same-content", func() starlark.Value {
				a, b := pair()
				d := starlark.NewDict(1)
				d.SetKey(b, starlark.None)
				return starlark.NewList([]starlark.Value{a, d})
			})
		}
	}
	// (6) aliasing graphs: three mutable containers with two reference slots each
	kinds := [][3]string{{"list", "list", "list"}, {"dict", "list", "list"}, {"list", "dict", "dict"}, {"dict", "dict", "dict"}, {"list", "list", "host"}}
	if !thorough {
		kinds = [][3]string{kinds[0], kinds[1], kinds[4], {"host", "list", "list"}}
	} else {
		kinds = append(kinds, [3]string{"host", "list", "list"}, [3]string{"host", "dict", "host"})
	}
	for _, ks := range kinds {
		for g := 0; g < 4096; g++ {
			ks, g := ks, g
			add(fmt.Sprintf("alias graph %v #%d", ks, g), "aliasing", func() starlark.Value {
				var objs [3]starlark.Value
				for i, k := range ks {
					switch k {
					case "list":
						objs[i] = starlark.NewList(nil)
					case "dict":
						objs[i] = starlark.NewDict(2)
					case "host":
						objs[i] = &hostObj{}
					}
				}
				ref := func(code int) starlark.Value {
					if code == 3 {
						return starlark.MakeInt(7)
					}
					return objs[code]
				}
				x := g
				for i := 0; i < 3; i++ {
					r0, r1 := ref(x%4), ref(x/4%4)
					x /= 16
					switch o := objs[i].(type) {
					case *starlark.List:
						o.Append(r0)
						o.Append(r1)
					case *starlark.Dict:
						o.SetKey(starlark.String("p"), r0)
						o.SetKey(starlark.String("q"), r1)
					case *hostObj:
						// a host object's arguments are fixed at construction: it can only refer to
						// objects created before it
						o.args = starlark.Tuple{r0, r1}
					}
				}
				return starlark.Tuple{objs[0], objs[1], objs[2]}
			})
		}
	}
	return cases
}

type replay struct {
	Codec   string `json:"codec"`
	Case    string `json:"case"`
	Value   string `json:"value"`
	Encoded string `json:"encoded_hex_prefix"`
	Result  string `json:"result"`
}

func short(s string) string {
	if len(s) > 300 {
		return s[:300] + "…"
	}
	return s
}

func main() {
	r := vlib.Start("C07")
	type chunk struct {
		c      codec
		lo, hi int
	}
	var chunks []chunk
	all := map[string][]testCase{}
	total := int64(0)
	for _, c := range codecs {
		cases := allCases(r.Thorough(), c)
		all[c.name] = cases
		total += int64(len(cases))
		for lo := 0; lo < len(cases); lo += 4000 {
			hi := lo + 4000
			if hi > len(cases) {
				hi = len(cases)
			}
			chunks = append(chunks, chunk{c, lo, hi})
		}
	}
	r.OnCrash = func(idx int, output string) {
		ch := chunks[idx]
		first := output
		if k := strings.Index(first, "\n"); k > 0 {
			first = first[:k]
		}
		r.Violation("C07:codec-crash", fmt.Sprintf("[%s] worker died (%s) while round-tripping cases %d..%d (first: %s)", ch.c.name, first, ch.lo, ch.hi, all[ch.c.name][ch.lo].desc),
			replay{Codec: ch.c.name, Case: fmt.Sprintf("cases %d..%d", ch.lo, ch.hi), Result: short(output)})
	}
	r.Distribute(len(chunks), func(ci int) {
		ch := chunks[ci]
		c := ch.c
		cases := all[c.name]
		for i := ch.lo; i < ch.hi; i++ {
			tc := cases[i]
			v := tc.build()
			var out starlark.Value
			var enc []byte
			var eerr, derr error
			func() {
				defer func() {
					if p := recover(); p != nil {
						derr = fmt.Errorf("panic: %v", p)
					}
				}()
				out, enc, eerr, derr = c.rt(v)
			}()
			r.Add("roundtrips", 1)
			r.Add("roundtrips:"+c.name, 1)
			r.Outcome("classes", c.name+"/"+tc.class)
			res := ""
			switch {
			case eerr != nil:
				res = "encode error: " + eerr.Error()
			case derr != nil:
				res = "decode error: " + derr.Error()
			default:
				st := &isoState{fwd: map[any]any{}, rev: map[any]any{}, open: map[*hostObj]bool{}}
				if err := st.iso(v, out, "$"); err != nil {
					res = err.Error()
				}
			}
			if len(enc) > 40 || !strings.HasPrefix(tc.class, "int") {
				r.Add("nontrivial", 1)
			}
			if res != "" {
				if k := strings.Index(res, "{cause="); k >= 0 {
					tc.class = strings.TrimSuffix(res[k+7:], "}")
				}
				vs := "(large)"
				if !strings.HasPrefix(tc.class, "batch") && !strings.HasPrefix(tc.class, "string") && !strings.HasPrefix(tc.class, "bytes") {
					vs = short(v.String())
				}
				hx := fmt.Sprintf("%x", enc)
				r.Violation("C07:"+tc.class, fmt.Sprintf("[%s] %s: %s", c.name, tc.desc, short(res)), replay{c.name, tc.desc, vs, short(hx), short(res)})
			}
			if i%20011 == 7 {
				r.Sample(map[string]any{"codec": c.name, "case": tc.desc, "encoded_bytes": len(enc)})
			}
		}
	})
	r.Assumptions = []string{
		"the scaled codec is a build-time clone of /repo/pickle with the literal 1000 replaced by 3 (vtool -clone); everything else is the real package",
		"sharing of tuples and of immutable scalars is not observable in Starlark and is not compared",
		"set elements and dict keys are restricted to hashable values (a Starlark requirement)",
	}
	r.Finish(vlib.Coverage{
		Evaluations:        r.Get("roundtrips"),
		DistinctNontrivial: r.Get("nontrivial"),
		Rule:               "every integer in [-70000,70000] and around 2^31/2^32/2^63/2^64; float classes; strings/bytes at lengths {0,1,2,255,256,257,65535,65536,70000} x 6 content classes; all containers (tuple/list/dict/set) of 0..3 elements over 12 leaves, nested to depth 2 (3 in thorough) through representative pools; batch boundaries (B-1,B,B+1,2B+1,...) flat, self-containing and nested at 15 host positions for B=1000 and for the scaled clone B=3; all 4096 aliasing graphs over 3 mutable containers x kind combinations; non-trivial = every case other than a bare small integer",
		States:             total,
		Transitions:        r.Get("roundtrips"),
		Exhaustive:         true,
		Outcomes:           r.NumOutcomes("classes"),
		Bounds:             map[string]any{"int_range": map[bool]int{false: 70000, true: 1 << 21}[r.Thorough()], "container_elems": 3, "depth": map[bool]int{false: 2, true: 3}[r.Thorough()], "batch_sizes": "B-1..3B+1", "alias_objects": 3},
	})
}
