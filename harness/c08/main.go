// C08 — every target function can be fingerprinted, deterministically (and C02's load-order /
// process independence of fingerprints, and C16's "reason names exactly what differs").
//
// BUILD-file programs are generated from a feature grammar (all single features, all pairs);
// each is loaded by the real dawn.Load in a worker process (a stack overflow is fatal in Go, so
// a dead worker is attributed to the program it was loading). Oracle: functionEnv terminates
// without error; two fresh loads give equal environments and byte-equal pickles; every listed
// single edit gives an unequal environment; a build followed by a rebuild executes once and
// then nothing; the rebuild reason after an edit names exactly the environment parts that differ.
package main

import (
	"bytes"
	"crypto/sha256"
	"encoding/hex"
	"flag"
	"fmt"
	"os"
	"os/exec"
	"path/filepath"
	"sort"
	"strings"

	dawn "github.com/pgavlin/dawn"
	"github.com/pgavlin/dawn/diff"
	"github.com/pgavlin/dawn/internal/verif/vlib"
	"github.com/pgavlin/dawn/label"
	starlark_os "github.com/pgavlin/dawn/lib/os"
	starlark_sh "github.com/pgavlin/dawn/lib/sh"
	"github.com/pgavlin/dawn/pickle"
	starlark_json "go.starlark.net/lib/json"
	"go.starlark.net/starlark"
)

var fAs = flag.String("as", "C08", "report under this property id; with C16 only the rebuild-reason oracle (C16's last clause) is reported")
var fFP = flag.String("fingerprint-of", "", "internal: print the fingerprint hash of the project in this directory and exit")

type edit struct {
	Name     string
	Old, New string // textual replacement somewhere in the program's files
}

type feature struct {
	Name   string
	Lib    string // contents of lib.dawn ("" = none)
	Lib2   string // contents of lib2.dawn
	Pre    string // module-level code
	Params string // extra parameters of the target function, e.g. ", d=5"
	Body   string // statements of the target function (4-space indented lines)
	Edits  []edit
	Post   string // module-level code placed after the target() call
	TArgs  string // extra arguments of the target() call
	Solo   bool   // many edits: composed alone (and in pairs only in the thorough tier)
	Own    bool   // the feature defines the target itself (Pre must define and register //:t)
}

func features() []feature {
	g := func(name, val, val2 string) feature {
		id := strings.ReplaceAll(name, "-", "_")
		_ = id
		return feature{Name: "global-" + name, Pre: "G_" + id + " = " + val + "\n", Body: "    x_" + id + " = G_" + id + "\n",
			Edits: []edit{{"change global " + name, "G_" + id + " = " + val + "\n", "G_" + id + " = " + val2 + "\n"}}}
	}
	pd := func(name, expr, expr2 string) feature {
		id := strings.ReplaceAll(name, "-", "_")
		return feature{Name: "predeclared-" + name, Body: "    p_" + id + " = " + expr + "\n",
			Edits: []edit{{"reference another predeclared value", "p_" + id + " = " + expr + "\n", "p_" + id + " = " + expr2 + "\n"}}}
	}
	return []feature{
		{Name: "plain", Body: "    pass\n", Edits: []edit{{"change body", "    pass\n", "    y = 1\n"}}},
		g("int1", "5", "6"), g("int2", "300", "301"), g("int2b", "256", "65536"), g("int4", "70000", "70001"), g("int65536", "65536", "0"), g("int65535", "65535", "-1"), g("int2p31", "2147483648", "-2147483648"), g("bigint", "2 << 70", "(2 << 70) + 1"),
		g("float", "1.5", "2.5"), g("str", "\"a\"", "\"b\""), g("bytes", "b\"a\"", "b\"b\""), g("tuple", "(1, 2)", "(1, 3)"), g("list", "[1, 2]", "[1, 3]"),
		g("dict", "{\"k\": 1}", "{\"k\": 2}"), g("dictkey", "{\"k\": 1}", "{\"j\": 1}"), g("set", "set([1, 2])", "set([1, 3])"), g("nested", "{\"k\": [1, (2, 3)]}", "{\"k\": [1, (2, 4)]}"),
		g("none-bool", "(None, True)", "(None, False)"),
		// values that are equal under == but that a function can tell apart
		g("int-vs-float", "7", "7.0"), g("zero-sign", "0.0", "-0.0"), g("dict-order", "{\"a\": 1, \"b\": 2}", "{\"b\": 2, \"a\": 1}"), g("set-order", "set([1, 2])", "set([2, 1])"),
		g("range-vs-list", "[0, 1, 2]", "range(3)"), g("same-named-builtins-of-two-modules", "sh.exec", "os.exec"), g("struct-vs-dict", "host", "{\"os\": host.os, \"arch\": host.arch}"),
		g("nested-int-vs-float", "[(1, 2)]", "[(1, 2.0)]"), g("dictkey-int-vs-float", "{1: \"x\"}", "{1.0: \"x\"}"),
		{Name: "default-int-vs-float", Params: ", d3=3", Body: "    x_d3 = d3\n", Edits: []edit{{"change default to the equal float", ", d3=3", ", d3=3.0"}}},
		{Name: "global-cyclic-list", Pre: "CY = [1]\nCY.append(CY)\n", Body: "    x_cy = CY\n", Edits: []edit{{"change element of cyclic list", "CY = [1]", "CY = [2]"}}},
		{Name: "global-cyclic-dict", Pre: "CD = {\"a\": 1}\nCD[\"self\"] = CD\n", Body: "    x_cd = CD\n", Edits: []edit{{"change element of cyclic dict", "{\"a\": 1}", "{\"a\": 2}"}}},
		{Name: "global-big-list", Pre: "BIG = list(range(2001))\n", Body: "    x_big = BIG[0]\n", Edits: []edit{{"one more element", "range(2001)", "range(2002)"}}},
		{Name: "global-big-dict", Pre: "BIGD = {i: i for i in range(1500)}\n", Body: "    x_bigd = BIGD[0]\n", Edits: []edit{{"one more entry", "range(1500)", "range(1501)"}}},
		{Name: "default-immutable", Params: ", d1=5", Body: "    x_d1 = d1\n", Edits: []edit{{"change default", ", d1=5", ", d1=6"}}},
		{Name: "default-mutable", Params: ", d2=[1, {\"k\": 2}]", Body: "    x_d2 = d2\n", Edits: []edit{{"change mutable default", "{\"k\": 2}", "{\"k\": 3}"}}},
		{Name: "closure", Pre: "def mk(n):\n    def inner(z):\n        return z + n\n    return inner\nCL = mk(5)\n", Body: "    x_cl = CL(1)\n",
			Edits: []edit{{"change closure variable", "CL = mk(5)", "CL = mk(6)"}, {"change closure code", "return z + n", "return n + z + 0"}}},
		{Name: "two-closures-one-def", Pre: "def mk3(n, flags=[]):\n    def run(z):\n        return z + n + len(flags)\n    return run\nC_A = mk3(1)\nC_B = mk3(2, [\"-O2\"])\n", Body: "    x_2c = C_A(0) + C_B(0)\n",
			Edits: []edit{{"change what the second closure captured", "C_B = mk3(2,", "C_B = mk3(3,"}, {"change a default captured by the second closure", "\"-O2\"", "\"-O0\""}, {"change what the first closure captured", "C_A = mk3(1)", "C_A = mk3(4)"}}},
		{Name: "two-lambdas-one-site", Pre: "def mkl(k):\n    return lambda v: v * k\nLS = [mkl(2), mkl(3)]\n", Body: "    x_ls = LS[0](1) + LS[1](1)\n",
			Edits: []edit{{"change the second lambda's capture", "mkl(3)", "mkl(5)"}}},
		{Name: "late-global", Body: "    x_late = LATE_G\n", Post: "LATE_G = 7\ndef late_helper(x):\n    return x + LATE_G\n",
			Edits: []edit{{"change a global assigned below the target() call", "LATE_G = 7", "LATE_G = 8"}}},
		{Name: "late-helper", Body: "    x_lh2 = late_fn(2)\n", Post: "def late_fn(x):\n    return x * 3\n",
			Edits: []edit{{"change a helper defined below the target() call", "return x * 3", "return x * 4"}}},
		{Name: "nested-def-lambda", Body: "    def nn(a):\n        return a + 1\n    lam = lambda q: q * 2\n    x_nn = nn(1) + lam(2)\n",
			Edits: []edit{{"change nested def", "return a + 1", "return a + 2"}, {"change lambda", "q * 2", "q * 3"}}},
		{Name: "helper-same-module", Pre: "def h1(x):\n    return x + 1\n", Body: "    x_h1 = h1(1)\n", Edits: []edit{{"change helper body", "return x + 1", "return x + 2"}}},
		{Name: "helper-loaded-module", Lib: "LK = 3\ndef lh(x):\n    return x + LK\n", Pre: "load(\"//:lib.dawn\", \"lh\")\n", Body: "    x_lh = lh(1)\n",
			Edits: []edit{{"change loaded helper body", "return x + LK", "return LK + x + 0"}, {"change constant the loaded helper references", "LK = 3", "LK = 4"}}},
		{Name: "helper-two-levels", Lib: "load(\"//:lib2.dawn\", \"deep\")\ndef lh2(x):\n    return deep(x)\n", Lib2: "def deep(x):\n    return x * 7\n", Pre: "load(\"//:lib.dawn\", \"lh2\")\n", Body: "    x_lh2 = lh2(1)\n",
			Edits: []edit{{"change helper two modules away", "return x * 7", "return x * 8"}}},
		{Name: "direct-recursion", Pre: "def fact(n):\n    if n <= 1:\n        return 1\n    return n * fact(n - 1)\n", Body: "    x_fact = fact(3)\n", Edits: []edit{{"change recursive helper", "        return 1\n", "        return 2\n"}}},
		{Name: "mutual-recursion", Pre: "def ev(n):\n    return True if n == 0 else od(n - 1)\ndef od(n):\n    return False if n == 0 else ev(n - 1)\n", Body: "    x_ev = ev(4)\n", Edits: []edit{{"change one of two mutually recursive helpers", "return False if n == 0", "return None if n == 0"}}},
		{Name: "recursion-through-loaded-helper", Lib: "def lfact(n):\n    if n <= 1:\n        return 1\n    return n * lfact(n - 1)\n", Pre: "load(\"//:lib.dawn\", \"lfact\")\n", Body: "    x_lfact = lfact(3)\n", Edits: []edit{{"change loaded recursive helper", "        return 1\n", "        return 2\n"}}},
		{Name: "own-name", Body: "    me = _t\n", Edits: []edit{{"stop referring to own name", "    me = _t\n", "    me = None\n"}}},
		{Name: "other-target-object", Pre: "def _o(t):\n    pass\nOT = target(name=\"o\", function=_o)\n", Body: "    x_ot = OT\n", Edits: []edit{{"refer to a differently named target", "name=\"o\"", "name=\"o2\""}}},
		pd("host", "host.os", "host.arch"), pd("os-module", "os.environ", "os.exec"), pd("sh-module", "sh.exec", "sh.output"), pd("json-module", "json.encode", "json.decode"),
		pd("package", "package", "None"), pd("universal-builtin", "len", "str"), pd("path-builtin", "path", "label"),
		{Name: "cache-instance", Pre: "CA = Cache()\n", Body: "    x_ca = CA\n", Edits: []edit{{"stop referring to the cache", "    x_ca = CA\n", "    x_ca = None\n"}}},
		{Name: "glob-result", Pre: "GL = glob([\"*.txt\"])\n", Body: "    x_gl = GL\n", Edits: []edit{{"glob another pattern", "\"*.txt\"", "\"*.dawn\""}}},
		{Name: "bound-method", Pre: "BM = [1].append\n", Body: "    x_bm = BM\n", Edits: []edit{{"refer to another method", "[1].append", "[1].extend"}, {"refer to the same method of another receiver", "[1].append", "[2].append"}}},
		{Name: "flag-value", Pre: "FL = parse_flag(\"mode\", default=\"m0\")\n", Body: "    x_fl = FL\n", Edits: []edit{{"change flag default", "\"m0\"", "\"m1\""}}},
		{Name: "varargs", Params: ", *args, **kwargs", Body: "    x_va = args\n", Edits: []edit{{"drop kwargs", ", *args, **kwargs", ", *args"}}},
		{Name: "helper-kwonly-mandatory", Pre: "def hk(a, *, b, c=1):\n    return a + b + c\n", Body: "    x_hk = hk(1, b=2)\n", Edits: []edit{{"change keyword-only default", "b, c=1", "b, c=2"}}},
		{Name: "helper-kwonly-after-varargs", Pre: "def hv(*rest, k):\n    return len(rest) + k\n", Body: "    x_hv = hv(1, 2, k=3)\n", Edits: []edit{{"change body of helper with mandatory keyword-only parameter", "len(rest) + k", "len(rest) - k"}}},
		{Name: "helper-kwonly-optional", Pre: "def ho(a, *, c=1):\n    return a + c\n", Body: "    x_ho = ho(1)\n", Edits: []edit{{"change optional keyword-only default", "*, c=1", "*, c=2"}}},
		// keys and elements that are not plain data: they are decoded into dicts/tuples, which cannot be keys
		{Name: "dict-keyed-by-function", Pre: "def kf(x):\n    return x + 1\nDKF = {kf: \"objects\"}\n", Body: "    x_dkf = DKF\n", Edits: []edit{{"change value under a function key", "\"objects\"", "\"binary\""}, {"change the function that is the key", "return x + 1", "return x + 2"}}},
		{Name: "dict-keyed-by-builtin", Pre: "DKB = {len: 1, str: 2}\n", Body: "    x_dkb = DKB\n", Edits: []edit{{"change value under a builtin key", "len: 1", "len: 3"}}},
		{Name: "set-of-functions", Pre: "def sf1(x):\n    return x\ndef sf2(x):\n    return -x\nSOF = set([sf1, sf2])\n", Body: "    x_sof = SOF\n", Edits: []edit{{"change a function that is a set element", "return -x", "return x * 2"}}},
		// a declared output: when it is missing AND the environment was edited, the reason still names the parts that differ
		{Name: "generates-a-file", TArgs: ", generates=[\"gen.out\"]", Pre: "GEN_K = 1\n", Body: "    x_gen = GEN_K\n", Edits: []edit{{"change a global of a target with a declared output (which is deleted, too)", "GEN_K = 1", "GEN_K = 2"}}},
		// a target of the same project that cannot be fingerprinted and shares a value with //:t
		{Name: "sibling-that-cannot-be-fingerprinted", Pre: "SHARED = [1, [2]]\nZ_OPAQUE = opaque\ndef _bad(t):\n    x = (SHARED, print, Z_OPAQUE)\ntarget(name=\"bad\", function=_bad)\n", Body: "    x_sh = (SHARED, print)\n", Edits: []edit{{"change the value shared with the failing sibling", "[1, [2]]", "[1, [3]]"}}},
		{Name: "struct-attr-chain", Pre: "def mk2():\n    return {\"f\": lambda v: v + 1}\nST = mk2()\n", Body: "    x_st = ST[\"f\"](1)\n", Edits: []edit{{"change lambda stored in a dict", "v + 1", "v + 2"}}},
	}
}

// more than 256 objects that are encoded by reference, and an alias that is re-pointed from
// one to another: references are written with 1-byte ids below 256 and 4-byte ids from 256
// on, and two different objects must never be written as the same reference. Which object
// gets which id depends on the order of declaration and of use, so several are enumerated.
// aliasFeatures: which object gets which reference id depends on the order of declaration and of
// use and on where the alias is assigned, so all of these are enumerated. The alias is assigned
// below the target's registration, so that re-pointing it changes nothing else in the module.
func aliasFeatures() []feature {
	var out []feature
	for di, decls := range []string{"BASE = [\"base\"]\nPARTS = [[i] for i in range(300)]\n", "PARTS = [[str(i)] for i in range(300)]\nBASE = [\"base\"]\n"} {
		for _, from := range []string{"BASE", "PARTS", "PARTS[0]"} {
			for bi, body := range []string{"(PICK, PARTS, BASE)", "(BASE, PARTS, PICK)", "(PARTS, PICK, BASE)"} {
				out = append(out, aliasFeature(fmt.Sprintf("d%d-%s-b%d", di, from, bi), decls, from, body))
			}
		}
	}
	return out
}

func aliasFeature(name, decls, from, body string) feature {
	f := feature{Name: "alias-among-300-objects-" + name, Solo: true,
		Pre:  decls,
		Post: "PICK = " + from + "\n",
		Body: "    x_pick = " + body + "\n"}
	for k := 0; k < 300; k++ {
		to := fmt.Sprintf("PARTS[%d]", k)
		if to == from {
			continue
		}
		f.Edits = append(f.Edits, edit{fmt.Sprintf("re-point the alias from %s to object %d", from, k), "PICK = " + from + "\n", "PICK = " + to + "\n"})
	}
	return f
}

type program struct {
	Name  string
	Files map[string]string
	Edits []edit
}

func compose(fs ...feature) program {
	p := program{Files: map[string]string{"dawn.toml": "name = \"p\"\n", "a.txt": "a\n"}}
	var names []string
	var pre, params, body, post, targs strings.Builder
	for _, f := range fs {
		targs.WriteString(f.TArgs)
		if f.TArgs != "" {
			p.Files["gen.out"] = "generated\n" // the declared output exists (bodies here write nothing)
		}
		names = append(names, f.Name)
		pre.WriteString(f.Pre)
		post.WriteString(f.Post)
		params.WriteString(f.Params)
		body.WriteString(f.Body)
		if f.Lib != "" {
			p.Files["lib.dawn"] = f.Lib
		}
		if f.Lib2 != "" {
			p.Files["lib2.dawn"] = f.Lib2
		}
		for _, e := range f.Edits {
			e.Name = f.Name + ": " + e.Name
			p.Edits = append(p.Edits, e)
		}
	}
	// parameters with *args must come last: reorder naively (defaults before varargs)
	ps := params.String()
	if i := strings.Index(ps, ", *args"); i >= 0 {
		va := ps[i:]
		if j := strings.Index(va[1:], ", d"); j >= 0 {
			rest := va[1+j:]
			va = va[:1+j]
			ps = ps[:i] + rest + va
		}
	}
	p.Name = strings.Join(names, "+")
	p.Files["BUILD.dawn"] = pre.String() + "def _t(t" + ps + "):\n" + body.String() + "target(name=\"t\", function=_t" + targs.String() + ")\n" + post.String()
	return p
}

func (p program) write(root string, files map[string]string) {
	os.RemoveAll(root)
	for n, c := range files {
		full := filepath.Join(root, n)
		os.MkdirAll(filepath.Dir(full), 0o755)
		if err := os.WriteFile(full, []byte(c), 0o644); err != nil {
			vlib.Fatalf("%v", err)
		}
	}
}

// applyEdit returns the edited file set, or nil if the pattern does not occur exactly once.
func (p program) applyEdit(e edit) map[string]string {
	out := map[string]string{}
	hits := 0
	for n, c := range p.Files {
		k := strings.Count(c, e.Old)
		hits += k
		out[n] = strings.Replace(c, e.Old, e.New, 1)
	}
	if hits != 1 {
		return nil
	}
	return out
}

type rec struct {
	dawn.Events
	ev []string
	rs map[string]string
	df map[string]diff.ValueDiff
}

func (r *rec) TargetEvaluating(l *label.Label, reason string, d diff.ValueDiff) {
	r.ev = append(r.ev, "Evaluating "+l.String())
	r.rs[l.String()] = reason
	r.df[l.String()] = d
}
func (r *rec) TargetUpToDate(l *label.Label) { r.ev = append(r.ev, "UpToDate "+l.String()) }
func (r *rec) TargetFailed(l *label.Label, err error) {
	r.ev = append(r.ev, "Failed "+l.String()+": "+strings.ReplaceAll(err.Error(), "\n", " "))
}

func builtins() starlark.StringDict {
	return starlark.StringDict{"json": starlark_json.Module, "os": starlark_os.Module, "sh": starlark_sh.Module, "opaque": opaqueValue{}}
}

// opaqueValue is a value an embedder predeclares and that cannot be pickled: a target that
// refers to it legitimately cannot be fingerprinted.
type opaqueValue struct{}

func (opaqueValue) String() string        { return "<opaque>" }
func (opaqueValue) Type() string          { return "opaque" }
func (opaqueValue) Freeze()               {}
func (opaqueValue) Truth() starlark.Bool  { return starlark.True }
func (opaqueValue) Hash() (uint32, error) { return 1, nil }

type loaded struct {
	env   starlark.Value
	bytes []byte
	proj  *dawn.Project
	ev    *rec
}

func load(root string) (*loaded, error) {
	ev := &rec{Events: dawn.DiscardEvents, rs: map[string]string{}, df: map[string]diff.ValueDiff{}}
	proj, err := dawn.Load(root, &dawn.LoadOptions{Events: ev, Builtins: builtins()})
	if err != nil {
		return nil, fmt.Errorf("load: %w", err)
	}
	// a sibling target that cannot be fingerprinted is fingerprinted first (it fails, as it
	// must): the failure must leave nothing behind for the fingerprints computed afterwards
	if lb, _ := label.Parse("//:bad"); lb != nil {
		if tb, err := proj.Target(lb); err == nil {
			if fnb := dawn.VerifTargetFunction(tb); fnb != nil {
				if _, err := dawn.VerifFunctionEnv(fnb); err == nil {
					return nil, fmt.Errorf("load: BUILD.dawn: harness bug: //:bad can be fingerprinted")
				}
				proj.Run(lb, nil) // and through the build, too
			}
		}
	}
	l, _ := label.Parse("//:t")
	t, err := proj.Target(l)
	if err != nil {
		return nil, fmt.Errorf("target: %w", err)
	}
	fn := dawn.VerifTargetFunction(t)
	if fn == nil {
		return nil, fmt.Errorf("//:t is not a function target")
	}
	env, err := dawn.VerifFunctionEnv(fn)
	if err != nil {
		return nil, fmt.Errorf("functionEnv: %w", err)
	}
	var buf bytes.Buffer
	if err := pickle.NewEncoder(&buf, pickle.PicklerFunc(dawn.VerifNewEnvPickler())).Encode(fn); err != nil {
		return nil, fmt.Errorf("encode: %w", err)
	}
	return &loaded{env: env, bytes: buf.Bytes(), proj: proj, ev: ev}, nil
}

func run(l *loaded) error {
	lb, _ := label.Parse("//:t")
	return l.proj.Run(lb, nil)
}

func errClass(err error) string {
	s := err.Error()
	for _, k := range []string{"maximum recursion depth", "NEWOBJ expects", "cannot pickle", "stack underflow", "unknown binary op", "comparing function environments", "computing function environment"} {
		if strings.Contains(s, k) {
			return strings.ReplaceAll(k, " ", "-")
		}
	}
	if len(s) > 40 {
		s = s[:40]
	}
	return strings.Map(func(r rune) rune {
		if r == ' ' || r == ':' || r == '/' {
			return '-'
		}
		return r
	}, s)
}

var envKeys = []string{"names", "constant values", "predeclared values", "universal values", "function values", "global values", "default parameter values", "free variables", "code"}

// differingKeys returns the environment parts whose values differ.
func differingKeys(a, b starlark.Value) ([]string, error) {
	da, ok1 := a.(*starlark.Dict)
	db, ok2 := b.(*starlark.Dict)
	if !ok1 || !ok2 {
		return nil, fmt.Errorf("environment is not a dict")
	}
	var out []string
	for _, k := range envKeys {
		va, fa, _ := da.Get(starlark.String(k))
		vb, fb, _ := db.Get(starlark.String(k))
		if fa != fb {
			out = append(out, k)
			continue
		}
		if !fa {
			continue
		}
		eq, err := starlark.EqualDepth(va, vb, 2000)
		if err != nil || eq {
			// self-referential data, or values that are equal under == (1 and 1.0, dict order) and
			// that the function can still tell apart: compare the two parts through two
			// independent encodings
			var xa, xb bytes.Buffer
			if e1, e2 := pickle.NewEncoder(&xa, nil).Encode(va), pickle.NewEncoder(&xb, nil).Encode(vb); e1 != nil || e2 != nil {
				return nil, err
			}
			eq = bytes.Equal(xa.Bytes(), xb.Bytes())
		}
		if !eq {
			out = append(out, k)
		}
	}
	return out, nil
}

func parseReason(reason string) []string {
	r := strings.TrimSuffix(reason, " changed")
	r = strings.ReplaceAll(r, ", and ", ", ")
	r = strings.ReplaceAll(r, " and ", ", ")
	var out []string
	for _, p := range strings.Split(r, ", ") {
		if p = strings.TrimSpace(p); p != "" {
			out = append(out, p)
		}
	}
	return out
}

type replay struct {
	Program string            `json:"program"`
	Files   map[string]string `json:"files"`
	Edit    string            `json:"edit,omitempty"`
	What    string            `json:"what"`
}

// sameEnv compares two environments; values that cannot be compared structurally (cyclic data)
// are compared through their encodings, which are deterministic.
func sameEnv(a, b *loaded) (bool, string) {
	eq, err := starlark.EqualDepth(a.env, b.env, 2000)
	if err != nil {
		return bytes.Equal(a.bytes, b.bytes), "by-encoding"
	}
	return eq, "by-value"
}

func fingerprintHash(root string) (string, error) {
	l, err := load(root)
	if err != nil {
		return "", err
	}
	h := sha256.Sum256(l.bytes)
	return hex.EncodeToString(h[:]), nil
}

func main() {
	flag.Parse()
	if *fFP != "" {
		h, err := fingerprintHash(*fFP)
		if err != nil {
			fmt.Println("ERROR", err)
			os.Exit(0)
		}
		fmt.Println("FP", h)
		os.Exit(0)
	}
	r := vlib.Start(*fAs)
	reasonsOnly := *fAs == "C16"
	staleOnly := *fAs == "C01" // only "an edit of a referenced value leaves the target up to date" (C01's currency clause)
	fs := append(features(), aliasFeatures()...)
	var progs []program
	for _, f := range fs {
		progs = append(progs, compose(f))
	}
	npairs := 0
	for i := range fs {
		for j := i + 1; j < len(fs); j++ {
			if fs[i].Lib != "" && fs[j].Lib != "" {
				continue // both define lib.dawn
			}
			if (fs[i].Solo || fs[j].Solo) && !r.Thorough() || fs[i].Solo && fs[j].Solo {
				continue // (two such features define the same names)
			}
			cyc := strings.Contains(fs[i].Name, "cyclic") || strings.Contains(fs[j].Name, "cyclic")
			if !r.Thorough() && (i*7+j)%2 != 0 && !cyc {
				continue // quick: half of the pairs (all pairs that involve self-referential data)
			}
			progs = append(progs, compose(fs[i], fs[j]))
			npairs++
		}
	}
	r.OnCrash = func(idx int, output string) {
		p := progs[idx]
		cls := "worker-died"
		if strings.Contains(output, "stack overflow") || strings.Contains(output, "goroutine stack exceeds") {
			cls = "stack-overflow"
		}
		r.Violation(*fAs+":fatal:"+cls, fmt.Sprintf("the process died (%s) while fingerprinting program %s", cls, p.Name), replay{p.Name, p.Files, "", firstLines(output, 6)})
	}
	r.Distribute(len(progs), func(i int) {
		p := progs[i]
		root := filepath.Join(r.Scratch, "proj")
		viol := func(sig, what, ed string) {
			if staleOnly && sig != "edit-not-detected" && sig != "edit-not-rebuilt" && sig != "edit-not-rebuilt-after-reload" {
				return
			}
			if reasonsOnly && !strings.HasPrefix(sig, "reason-") {
				return
			}
			r.Violation(*fAs+":"+sig, fmt.Sprintf("%s [program %s%s]", what, p.Name, map[bool]string{true: "; edit " + ed, false: ""}[ed != ""]), replay{p.Name, p.Files, ed, what})
		}
		r.Add("programs", 1)
		p.write(root, p.Files)
		l1, err := load(root)
		if err != nil && strings.HasPrefix(err.Error(), "load:") && strings.Contains(err.Error(), ".dawn:") && !strings.Contains(err.Error(), "loading prior function environment") {
			vlib.Fatalf("generated program %s does not load (harness bug): %v", p.Name, err)
		}
		if err != nil {
			viol("fingerprint-error:"+errClass(err), "fingerprinting failed: "+err.Error(), "")
			return
		}
		r.Add("loads", 1)
		// second fresh load at another root: equal environment, byte-equal pickle
		root2 := filepath.Join(r.Scratch, "other-root", "p2")
		p.write(root2, p.Files)
		l2, err := load(root2)
		if err != nil {
			viol("fingerprint-error:"+errClass(err), "second load failed: "+err.Error(), "")
			return
		}
		r.Add("loads", 1)
		if eq, how := sameEnv(l1, l2); !eq {
			viol("nondeterministic-fingerprint", "two loads of identical project text give unequal environments ("+how+")", "")
		}
		if !bytes.Equal(l1.bytes, l2.bytes) {
			viol("nondeterministic-pickle", "two loads of identical project text give different fingerprint bytes", "")
		}
		// another OS process
		if r.Thorough() || i%5 == 0 {
			out, _ := exec.Command(os.Args[0], "-fingerprint-of", root).CombinedOutput()
			r.Add("cross_process_comparisons", 1)
			h := sha256.Sum256(l1.bytes)
			if !strings.Contains(string(out), "FP "+hex.EncodeToString(h[:])) {
				viol("process-dependent-fingerprint", "another process computes a different fingerprint: "+firstLines(string(out), 2), "")
			}
		}
		// build, rebuild
		if err := run(l1); err != nil {
			viol("build-error:"+errClass(err), "first build failed: "+err.Error()+" "+strings.Join(l1.ev.ev, "; "), "")
			return
		}
		l3, err := load(root)
		if err != nil {
			viol("reload-error:"+errClass(err), "load after a build failed: "+err.Error(), "")
			return
		}
		if err := run(l3); err != nil {
			viol("rebuild-error:"+errClass(err), "rebuild of the unchanged tree failed: "+err.Error()+" "+strings.Join(l3.ev.ev, "; "), "")
		} else if len(l3.ev.rs) != 0 {
			viol("spurious-rebuild", fmt.Sprintf("rebuild of the unchanged tree re-executed: %v", l3.ev.rs), "")
		}
		r.Add("builds", 2)
		if strings.Contains(p.Name, "sibling-that-cannot-be-fingerprinted") {
			// in one process: the sibling's build fails on its fingerprint, then the unchanged //:t
			// is built: it must be up to date, as it is without the sibling's failure
			ev := &rec{Events: dawn.DiscardEvents, rs: map[string]string{}, df: map[string]diff.ValueDiff{}}
			if proj, err := dawn.Load(root, &dawn.LoadOptions{Events: ev, Builtins: builtins()}); err == nil {
				lbad, _ := label.Parse("//:bad")
				lt, _ := label.Parse("//:t")
				if proj.Run(lbad, nil) == nil {
					vlib.Fatalf("//:bad built although it cannot be fingerprinted")
				}
				if err := proj.Run(lt, nil); err != nil {
					viol("build-error:after-a-failed-fingerprint", "after a sibling target failed on its fingerprint, the build of the unchanged //:t fails: "+err.Error(), "")
				} else if _, ran := ev.rs["//:t"]; ran {
					viol("spurious-rebuild:after-a-failed-fingerprint", "after a sibling target failed on its fingerprint, the unchanged //:t was re-executed: "+ev.rs["//:t"], "")
				}
			}
		}
		// every single edit must change the fingerprint
		for _, e := range p.Edits {
			files := p.applyEdit(e)
			if files == nil {
				r.Add("edits_not_applicable", 1)
				continue
			}
			rootE := filepath.Join(r.Scratch, "edited")
			// keep the build state of the original program: copy .dawn
			p.write(rootE, files)
			copyTree(filepath.Join(root, ".dawn"), filepath.Join(rootE, ".dawn"))
			le, err := load(rootE)
			r.Add("edits", 1)
			if err != nil && strings.HasPrefix(err.Error(), "load:") && strings.Contains(err.Error(), ".dawn:") && !strings.Contains(err.Error(), "loading prior function environment") {
				vlib.Fatalf("edited program %s / %s does not load (harness bug): %v", p.Name, e.Name, err)
			}
			if err != nil {
				viol("fingerprint-error:"+errClass(err), "fingerprinting the edited program failed: "+err.Error(), e.Name)
				continue
			}
			// the fingerprint is the encoding (what the record stores); equality under == is not
			// enough: 1 and 1.0, or two orders of a dict's entries, are different values to the function
			eq, _ := sameEnv(l1, le)
			if eq = eq && bytes.Equal(l1.bytes, le.bytes); eq && strings.Contains(e.Name, "same-named-builtins-of-two-modules") {
				// builtins are fingerprinted by their bare name: sh.exec and os.exec are both "exec"
				viol("edit-not-detected:same-named-builtins-of-two-modules", "the edit leaves the fingerprint unchanged", e.Name)
				continue
			}
			if eq {
				viol("edit-not-detected", "the edit leaves the fingerprint unchanged", e.Name)
				continue
			}
			// the rebuild reason names exactly the parts that differ (C16, last clause)
			want, derr := differingKeys(l1.env, le.env)
			if strings.Contains(p.Name, "generates-a-file") {
				os.Remove(filepath.Join(rootE, "gen.out")) // the declared output is missing, too
			}
			if err := run(le); err != nil {
				viol("build-error:"+errClass(err), "build after an edit failed: "+err.Error(), e.Name)
				continue
			}
			reason, ran := le.ev.rs["//:t"]
			if !ran {
				viol("edit-not-rebuilt", "the target was not re-executed after the edit", e.Name)
				continue
			}
			// the same edit under a long-lived Project (watch mode): load the built project, run
			// (everything is up to date), let the sources change, Reload, run
			rootW := filepath.Join(r.Scratch, "watched")
			p.write(rootW, p.Files)
			copyTree(filepath.Join(root, ".dawn"), filepath.Join(rootW, ".dawn"))
			if lw, err := load(rootW); err == nil && run(lw) == nil && len(lw.ev.rs) == 0 {
				for n, c := range files {
					if p.Files[n] != c {
						os.WriteFile(filepath.Join(rootW, n), []byte(c), 0o644)
					}
				}
				if err := lw.proj.Reload(); err != nil {
					viol("reload-error:"+errClass(err), "Reload after the edit failed: "+err.Error(), e.Name)
				} else if err := run(lw); err != nil {
					viol("build-error:"+errClass(err), "build after the edit and a Reload failed: "+err.Error(), e.Name)
				} else if _, ran := lw.ev.rs["//:t"]; !ran {
					viol("edit-not-rebuilt-after-reload", "a long-lived Project that was reloaded after the edit did not re-execute the target", e.Name)
				}
				r.Add("reload_twins", 1)
			}
			if derr == nil {
				got := parseReason(reason)
				sort.Strings(got)
				w := append([]string{}, want...)
				sort.Strings(w)
				r.Add("reasons_checked", 1)
				if strings.Join(got, "|") != strings.Join(w, "|") {
					sig := "reason-wrong"
					if strings.Contains(p.Name, "dict-keyed-by-") || strings.Contains(p.Name, "set-of-functions") {
						// entries whose key or element is a function or builtin are dropped from the
						// decoded environment (their decoded form cannot be a key), so no part shows the edit
						sig = "reason-wrong:entries-with-non-data-keys"
					}
					viol(sig, fmt.Sprintf("rebuild reason %q names %v but the environment parts that differ are %v", reason, got, w), e.Name)
				}
				if d := le.ev.df["//:t"]; d != nil {
					if eqo, _ := starlark.EqualDepth(d.Old(), l1.env, 2000); !eqo {
						viol("reason-diff-sides", "the diff attached to the rebuild reason does not have the old environment as its old side", e.Name)
					}
				}
			}
		}
		if i%29 == 0 {
			r.Sample(map[string]any{"program": p.Name, "BUILD.dawn": p.Files["BUILD.dawn"], "edits": len(p.Edits), "fingerprint_bytes": len(l1.bytes)})
		}
	})
	r.Assumptions = []string{
		"programs are combinations of one or two features of a 46-feature grammar covering every value kind, defaults, closures, nested functions, helpers (same module, loaded, two levels), direct/mutual/loaded recursion, self-reference, other targets, every predeclared kind",
		"each program runs in a worker process; a dead worker is a violation attributed to the program",
	}
	r.Finish(vlib.Coverage{
		Evaluations:        r.Get("loads") + r.Get("edits") + r.Get("builds"),
		DistinctNontrivial: r.Get("programs"),
		Rule:               "all single features and all (quick: half of the) pairs of features; per program: 2 fresh loads at different roots (+ another OS process), build + rebuild, every applicable single edit with fingerprint comparison, build after the edit and reason check; distinct programs are distinct by construction",
		States:             r.Get("programs"),
		Transitions:        r.Get("loads") + r.Get("edits") + r.Get("builds"),
		Exhaustive:         true,
		Outcomes:           r.Get("reasons_checked"),
		Bounds:             map[string]any{"features": len(fs), "pairs": npairs},
	})
}

func firstLines(s string, n int) string {
	ls := strings.Split(s, "\n")
	if len(ls) > n {
		ls = ls[:n]
	}
	return strings.Join(ls, " | ")
}

func copyTree(from, to string) {
	filepath.Walk(from, func(p string, info os.FileInfo, err error) error {
		if err != nil {
			return nil
		}
		rel, _ := filepath.Rel(from, p)
		dst := filepath.Join(to, rel)
		if info.IsDir() {
			os.MkdirAll(dst, 0o755)
			return nil
		}
		b, err := os.ReadFile(p)
		if err == nil {
			os.WriteFile(dst, b, 0o644)
		}
		return nil
	})
}
