package main

import (
	"encoding/json"
	"flag"
	"fmt"
	"os"
	"os/exec"
	"path/filepath"
	"strings"
	"sync"

	dawn "github.com/pgavlin/dawn"
	"github.com/pgavlin/dawn/diff"
	"github.com/pgavlin/dawn/label"
)

// Interrupted builds in the free-running search (C01: "... builds (full, partial, failed or
// interrupted)"): the build runs in a child process that really dies (exit 137) inside a target
// body, just before the body writes the file named by -child-die-before. The two operations are
// chosen so that nothing else is in flight at that moment (a single chain of targets), which
// makes the directory the child leaves deterministic. The child appends every event to a file
// before going on, so the parent knows which bodies had started.

var (
	fChildRoot   = flag.String("child-root", "", "internal: interrupted build: project root")
	fChildTarget = flag.String("child-target", "", "internal: interrupted build: target")
	fChildDie    = flag.String("child-die-before", "", "internal: interrupted build: die before emitting this file")
	fChildVars   = flag.String("child-vars", "", "internal: interrupted build: JSON of the source variables")
	fChildEvents = flag.String("child-events", "", "internal: interrupted build: event log")
)

type fileRecorder struct {
	dawn.Events
	mu sync.Mutex
	f  *os.File
}

func (r *fileRecorder) add(e Event) {
	r.mu.Lock()
	defer r.mu.Unlock()
	e.Diff = nil
	b, _ := json.Marshal(e)
	r.f.Write(append(b, '\n'))
}
func (r *fileRecorder) LoadDone(err error)            { r.add(Event{Kind: "LoadDone", Err: es(err)}) }
func (r *fileRecorder) TargetUpToDate(l *label.Label) { r.add(Event{Kind: "UpToDate", Label: ls(l)}) }
func (r *fileRecorder) TargetEvaluating(l *label.Label, reason string, d diff.ValueDiff) {
	r.add(Event{Kind: "Evaluating", Label: ls(l), Reason: reason})
}
func (r *fileRecorder) TargetFailed(l *label.Label, err error) {
	r.add(Event{Kind: "Failed", Label: ls(l), Err: es(err)})
}
func (r *fileRecorder) TargetSucceeded(l *label.Label, changed bool) {
	r.add(Event{Kind: "Succeeded", Label: ls(l)})
}
func (r *fileRecorder) RunDone(err error) { r.add(Event{Kind: "RunDone", Err: es(err)}) }
func (r *fileRecorder) Print(l *label.Label, line string) {
	r.add(Event{Kind: "Print", Label: ls(l), Line: line})
}

// interruptChild is the whole life of the child process.
func interruptChild() {
	var v Vars
	if err := json.Unmarshal([]byte(*fChildVars), &v); err != nil {
		fmt.Fprintln(os.Stderr, "child: bad vars:", err)
		os.Exit(3)
	}
	f, err := os.OpenFile(*fChildEvents, os.O_CREATE|os.O_WRONLY|os.O_APPEND, 0o644)
	if err != nil {
		fmt.Fprintln(os.Stderr, "child:", err)
		os.Exit(3)
	}
	rec := &fileRecorder{Events: dawn.DiscardEvents, f: f}
	be := &bodyEnv{root: *fChildRoot, fail: map[string]bool{}, dieBefore: *fChildDie}
	be.obj.Desc = "fs"
	for i, fl := range v.Fail {
		if fl {
			be.fail[failName[i]] = true
		}
	}
	proj, err := dawn.Load(*fChildRoot, &dawn.LoadOptions{Args: v.args(), Events: rec, Builtins: be.builtins()})
	if err != nil {
		fmt.Fprintln(os.Stderr, "child: load:", err)
		os.Exit(4)
	}
	l, _ := label.Parse(*fChildTarget)
	err = proj.Run(l, nil)
	for _, st := range be.steps {
		rec.add(Event{Kind: "Step", Label: st})
	}
	if err != nil {
		os.Exit(5) // the build failed (before the point of death, if there is one)
	}
	os.Exit(0) // the build completed (the point of death, if any, was not reached)
}

// interruptedBuild performs the operation; it returns nil when the point of death is not
// reached from this state (the operation is then not applicable).
func (x *searcher) interruptedBuild(s, n *State, o buildOpts) []*State {
	vj, _ := json.Marshal(s.V)
	var tree map[string]string
	var events []Event
	code := -1
	var stderr string
	x.withRoot(func(root string) {
		writeTree(root, s.files())
		evf := filepath.Join(filepath.Dir(root), "interrupt-events.jsonl")
		os.Remove(evf)
		cmd := exec.Command(os.Args[0], "-prop", x.prop, "-child-root", root, "-child-target", o.Target, "-child-die-before", o.Interrupt, "-child-vars", string(vj), "-child-events", evf)
		out, err := cmd.CombinedOutput()
		stderr = string(out)
		code = 0
		if ee, ok := err.(*exec.ExitError); ok {
			code = ee.ExitCode()
		} else if err != nil {
			code = -2
		}
		tree = readTree(root)
		if b, err := os.ReadFile(evf); err == nil {
			for _, line := range strings.Split(string(b), "\n") {
				var e Event
				if line != "" && json.Unmarshal([]byte(line), &e) == nil {
					events = append(events, e)
				}
			}
		}
		os.Remove(evf)
	})
	x.nBuilds.Add(1)
	switch code {
	case 137:
	case 0, 5:
		return nil // not applicable here: the body that dies does not run in this state
	default:
		x.violation("load-failed", fmt.Sprintf("interrupted build: child exited with %d: %s", code, firstLine(stderr)), s, n.Hist, &buildResult{After: tree, Events: events, Executed: map[string]bool{}})
		return nil
	}
	x.r.Add("interrupted_builds", 1)
	// sources must never change
	for p, c := range s.V.render() {
		if tree[p] != c {
			x.violation("source-modified", "interrupted build modified source file "+p, s, n.Hist, &buildResult{After: tree, Events: events, Executed: map[string]bool{}})
		}
	}
	n.Art = artOf(tree)
	lv := s.V
	n.LoadV = &lv
	n.Crashed = true
	n.M.apply(events, s.V, tree)
	// a body that started and was not acknowledged has not executed
	done := map[string]bool{}
	for _, e := range events {
		if e.Kind == "Succeeded" || e.Kind == "Failed" {
			done[e.Label] = true
		}
	}
	for _, e := range events {
		if tm, ok := n.M.T[e.Label]; ok && e.Kind == "Evaluating" && !done[e.Label] {
			tm.Unfinished = true
		}
	}
	return []*State{n}
}

// childBuild runs one ordinary build in a child process whose working directory is a
// subdirectory of the project (what "dawn build" started from inside the tree is): nothing dawn
// does may depend on the process's working directory. misc/ holds decoys with the names of the
// project's declared outputs.
func (x *searcher) childBuild(s *State, o buildOpts) *buildResult {
	vj, _ := json.Marshal(s.V)
	res := &buildResult{Executed: map[string]bool{}}
	x.withRoot(func(root string) {
		writeTree(root, s.files())
		evf := filepath.Join(filepath.Dir(filepath.Clean(root)), "child-events.jsonl")
		os.Remove(evf)
		cmd := exec.Command(os.Args[0], "-prop", x.prop, "-child-root", root, "-child-target", o.Target, "-child-vars", string(vj), "-child-events", evf)
		cmd.Dir = filepath.Join(root, o.ChildCwd)
		out, err := cmd.CombinedOutput()
		code := 0
		if ee, ok := err.(*exec.ExitError); ok {
			code = ee.ExitCode()
		} else if err != nil {
			code = -2
		}
		switch code {
		case 0:
		case 5:
			res.RunErr = fmt.Errorf("build failed")
		default:
			res.LoadErr = fmt.Errorf("child exited with %d: %s", code, firstLine(string(out)))
		}
		res.After = readTree(root)
		if b, err := os.ReadFile(evf); err == nil {
			for _, line := range strings.Split(string(b), "\n") {
				var e Event
				if line == "" || json.Unmarshal([]byte(line), &e) != nil {
					continue
				}
				if e.Kind == "Step" {
					res.Steps = append(res.Steps, e.Label)
					for _, t := range []string{tGen, tMid, tTop, tLeaf, tOther, tColon, tOtherAll, tDocs} {
						if bodyName(t) == e.Label {
							res.Executed[t] = true
						}
					}
					continue
				}
				if e.Kind == "RunDone" && res.RunErr != nil {
					res.RunErr = fmt.Errorf("%s", e.Err)
				}
				res.Events = append(res.Events, e)
			}
		}
		os.Remove(evf)
	})
	x.nBuilds.Add(1)
	return res
}
