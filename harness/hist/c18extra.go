package main

import (
	"fmt"
	"os"
	"path/filepath"
	"strings"
	"sync"
	"sync/atomic"

	dawn "github.com/pgavlin/dawn"
	"github.com/pgavlin/dawn/internal/verif/vlib"
	"github.com/pgavlin/dawn/internal/verif/vsched"
	"github.com/pgavlin/dawn/label"
	starlark_os "github.com/pgavlin/dawn/lib/os"
	"go.starlark.net/starlark"
)

// ---- C18 (c): output is delivered as lines exactly once, in order, whatever the chunking ----

// compositions returns every way of cutting text into consecutive non-empty chunks.
func compositions(text string) [][]string {
	if text == "" {
		return [][]string{{}}
	}
	var out [][]string
	n := len(text)
	for m := 0; m < 1<<(n-1); m++ {
		var parts []string
		start := 0
		for i := 1; i < n; i++ {
			if m>>(i-1)&1 == 1 {
				parts = append(parts, text[start:i])
				start = i
			}
		}
		parts = append(parts, text[start:])
		out = append(out, parts)
	}
	return out
}

func expectedLines(text string) []string {
	ls := strings.Split(text, "\n")
	if ls[len(ls)-1] == "" {
		ls = ls[:len(ls)-1]
	}
	return ls
}

func (x *searcher) lineChunkings(r *vlib.Run, maxLen int) {
	var texts []string
	var gen func(p string)
	gen = func(p string) {
		texts = append(texts, p)
		if len(p) == maxLen {
			return
		}
		gen(p + "x")
		gen(p + "\n")
	}
	gen("")
	files := map[string]string{
		"dawn.toml":  "name = \"p\"\n",
		"BUILD.dawn": "def _t(t):\n    for c in chunks():\n        say(c)\ntarget(name=\"t\", function=_t)\n",
	}
	var cases atomic.Int64
	r.Parallel(len(texts), func(i int) {
		text := texts[i]
		want := expectedLines(text)
		for ci, comp := range compositions(text) {
			for _, reuse := range []bool{false, true} {
				if reuse && len(comp) < 2 {
					continue
				}
				_ = ci
				var got []string
				var seq []string
				x.withRoot(func(root string) {
					os.RemoveAll(root)
					for n, c := range files {
						os.MkdirAll(filepath.Dir(filepath.Join(root, n)), 0o755)
						os.WriteFile(filepath.Join(root, n), []byte(c), 0o644)
					}
					rec := newRecorder()
					be := &bodyEnv{root: root, fail: map[string]bool{}, chunks: comp, reuse: reuse}
					proj, err := dawn.Load(root, &dawn.LoadOptions{Events: rec, Builtins: be.builtins()})
					if err != nil {
						vlib.Fatalf("line-writer project does not load: %v", err)
					}
					l, _ := label.Parse("//:t")
					rec.ev = nil
					if err := proj.Run(l, nil); err != nil {
						vlib.Fatalf("line-writer project does not build: %v", err)
					}
					for _, e := range rec.ev {
						if e.Label == "//:t" {
							seq = append(seq, e.Kind)
							if e.Kind == "Print" {
								got = append(got, e.Line)
							}
						}
					}
				})
				cases.Add(1)
				ok := len(got) == len(want)
				for k := 0; ok && k < len(got); k++ {
					ok = got[k] == want[k]
				}
				if !ok {
					x.r.Violation("C18:lines:wrong-lines", fmt.Sprintf("text %q written as chunks %q (writer reuses its buffer: %v) was delivered as lines %q, expected %q", text, comp, reuse, got, want),
						map[string]any{"text": text, "chunks": comp, "reused_buffer": reuse, "got": got, "want": want})
				}
				if len(seq) < 2 || seq[0] != "Evaluating" || seq[len(seq)-1] != "Succeeded" {
					x.r.Violation("C18:lines:print-outside-evaluation", fmt.Sprintf("event sequence %v for text %q", seq, text), map[string]any{"text": text, "chunks": comp, "events": seq})
				}
			}
		}
	})
	r.Add("line_chunkings", cases.Load())
	r.Sample(map[string]any{"text": "xx\nx", "chunkings": compositions("xx\nx")})
}

// ---- C18 (b): the protocol under every interleaving of Project.Run (controlled scheduler) ----

func schedMain(r *vlib.Run, x *searcher) {
	controlled = true
	noDeep = true
	type scen struct {
		name  string
		v     Vars
		pre   []buildOpts // builds performed (default schedule) before the explored one
		o     buildOpts
		more  int               // extra preemptions for this scenario
		files map[string]string // a custom (smaller) project instead of the shape
	}
	base := initialVars()
	base.Chatty = true
	withv := func(f func(v *Vars)) Vars { v := base; f(&v); return v }
	scens := []scen{
		{"first build, two parallel branches", base, nil, buildOpts{Target: tTop}, 0, nil},
		{"shared dependency requested by two parallel branches (4-target diamond without sources)", Vars{}, nil, buildOpts{Target: tTop}, 1, map[string]string{
			"dawn.toml":      "name = \"p\"\n",
			"BUILD.dawn":     "def _gen(t):\n    step(\"gen\")\ntarget(name=\"gen\", function=_gen)\ndef _mid(t):\n    step(\"mid\")\ntarget(name=\"mid\", function=_mid, deps=[\":gen\"])\ndef _top(t):\n    step(\"top\")\ntarget(name=\"top\", function=_top, deps=[\":mid\", \"//pkg:leaf\"])\n",
			"pkg/BUILD.dawn": "def _leaf(t):\n    step(\"leaf\")\ntarget(name=\"leaf\", function=_leaf, deps=[\"//:gen\"])\n",
		}},
		{"rebuild, everything up to date", base, []buildOpts{{Target: tTop}}, buildOpts{Target: tTop}, 0, nil},
		{"always", base, []buildOpts{{Target: tTop}}, buildOpts{Target: tTop, Always: true}, 0, nil},
		{"failing leaf", withv(func(v *Vars) { v.Fail[2] = true }), nil, buildOpts{Target: tTop}, 0, nil},
		{"failing gen", withv(func(v *Vars) { v.Fail[0] = true }), nil, buildOpts{Target: tTop}, 0, nil},
		{"missing dependency", withv(func(v *Vars) { v.Missing = true }), nil, buildOpts{Target: tTop}, 0, nil},
		{"dependency cycle", withv(func(v *Vars) { v.Cycle = true }), nil, buildOpts{Target: tTop}, 0, nil},
		{"dry run", base, nil, buildOpts{Target: tTop, Dry: true}, 0, nil},
		{"dependency cycle entered from two sides at once (the requested target depends on both members)", Vars{}, nil, buildOpts{Target: tTop}, 1, map[string]string{
			"dawn.toml":      "name = \"p\"\n",
			"BUILD.dawn":     "def _mid(t):\n    step(\"mid\")\ntarget(name=\"mid\", function=_mid, deps=[\"//pkg:leaf\"])\ndef _top(t):\n    step(\"top\")\ntarget(name=\"top\", function=_top, deps=[\":mid\", \"//pkg:leaf\"])\n",
			"pkg/BUILD.dawn": "def _leaf(t):\n    step(\"leaf\")\ntarget(name=\"leaf\", function=_leaf, deps=[\"//:mid\"])\n",
		}},
	}
	bound := 0 // quick: every non-preemptive schedule
	if r.Thorough() {
		bound = 1
	}
	if *fBound >= 0 {
		bound = *fBound
	}
	r.Distribute(len(scens), func(si int) {
		sc := scens[si]
		s := &State{V: sc.v, Art: map[string]string{}, M: newModel()}
		for _, o := range sc.pre {
			res := x.runBuild(s, o)
			s.Art = artOf(res.After)
		}
		orders := map[string]bool{}
		lastRoot := ""
		ex := &vsched.Explorer{Bound: bound + sc.more, Prune: true, MaxExecs: 200_000}
		ex.Run = func(prefix []int) *vsched.Result {
			var res *buildResult
			x.withRoot(func(root string) {
				files := sc.files
				if files == nil {
					files = s.files()
				}
				if root != lastRoot {
					writeTree(root, files)
					lastRoot = root
				} else {
					// same sources as last time: only the artefacts have to be put back
					for _, d := range []string{".dawn", "out", "gen"} {
						os.RemoveAll(filepath.Join(root, d))
					}
					art := map[string]string{}
					for k, v := range files {
						if isArtefact(k) {
							art[k] = v
						}
					}
					writeArtefacts(root, art)
				}
				res = buildCtl(root, s.V, sc.o, ctlOpts{prefix: prefix, muted: true, noTree: true})
			})
			x.nBuilds.Add(1)
			n := s.child("explored:" + sc.name)
			if res.Sched.Deadlock != "" || res.Sched.Livelock != "" || res.Sched.Panic != "" {
				x.violation("protocol:build-did-not-terminate", res.Sched.Deadlock+res.Sched.Livelock+firstLine(res.Sched.Panic)+fmt.Sprint(" schedule=", res.Sched.Choices), s, n.Hist, res)
				res.Sched.Points = nil
				return res.Sched
			}
			if res.LoadErr != nil {
				vlib.Fatalf("scenario %s does not load: %v", sc.name, res.LoadErr)
			}
			before := x.r.NumViolations()
			x.checkProtocol(s, n, sc.o, res)
			x.checkChatty(s, n, res)
			if x.r.NumViolations() > before {
				res.Sched.Points = nil
			}
			orders[strings.Join(evStrings(res.Events), ";")] = true
			return res.Sched
		}
		ex.Check = func(*vsched.Result) bool { return !r.Expired() }
		ex.Explore()
		if ex.Capped != "" || ex.Stopped {
			r.Cap("exploration cut: " + ex.Capped + map[bool]string{true: " wall-clock budget", false: ""}[ex.Stopped])
		}
		r.Add("executions", ex.Execs)
		r.Add("distinct_event_orders", int64(len(orders)))
		if len(orders) > 1 {
			r.Add("scenarios_with_contention", 1)
		}
		r.Max("points_per_execution", int64(ex.MaxPoints))
		r.Sample(map[string]any{"scenario": sc.name, "interleavings": ex.Execs, "distinct_event_orders": len(orders)})
	})
	r.Assumptions = []string{"Load runs on the default schedule (muted); every scheduling decision from the start of Run on is explored up to the preemption bound", "scheduling points at every sync operation of project.go, module.go, cache.go and runner/runner.go"}
	r.Finish(vlib.Coverage{
		Evaluations:        r.Get("executions"),
		DistinctNontrivial: r.Get("scenarios_with_contention"),
		Rule:               "10 build scenarios (parallel branches, up-to-date, always, failing bodies, missing dependency, dependency cycle, dry run) of the real Project.Run under the controlled scheduler, every interleaving within the preemption bound; non-trivial = scenario with more than one distinct event order",
		States:             r.Get("distinct_event_orders"),
		Transitions:        r.Get("executions"),
		TracesValidated:    r.Get("executions"),
		Exhaustive:         true,
		Outcomes:           r.Get("distinct_event_orders"),
		Bounds:             map[string]any{"preemption_bound": bound, "scenarios": len(scens)},
	})
}

// checkChatty: the lines printed by chatty bodies arrive exactly once, in order, between
// Evaluating and completion of their own label, under every interleaving.
func (x *searcher) checkChatty(s, n *State, res *buildResult) {
	if !s.V.Chatty {
		return
	}
	want := map[string][]string{tTop: {"top line 1", "top line 2", "partial"}, tLeaf: {"leaf says", "hello world"}}
	for t, w := range want {
		if !res.Executed[t] {
			continue
		}
		// a failing body fails at its first step, before printing
		failing := false
		for i, f := range s.V.Fail {
			failing = failing || (f && failName[i] == bodyName(t))
		}
		if failing {
			w = nil
		}
		var got []string
		for _, e := range res.Events {
			if e.Kind == "Print" && e.Label == t {
				got = append(got, e.Line)
			}
		}
		if strings.Join(got, "\x00") != strings.Join(w, "\x00") {
			x.violation("protocol:lines-wrong-under-interleaving", fmt.Sprintf("%s printed %q, expected %q; schedule=%v", t, got, w, res.Sched.Choices), s, n.Hist, res)
		}
	}
}

// ---- C18 (d): the same protocol as seen by a run(callback=...) consumer (the REPL's event stream) ----

func (x *searcher) replCallbackProtocol(r *vlib.Run) {
	base := initialVars()
	cases := []struct {
		name string
		v    Vars
	}{
		{"first build", base},
		{"failing leaf", func() Vars { v := base; v.Fail[2] = true; return v }()},
		{"failing gen", func() Vars { v := base; v.Fail[0] = true; return v }()},
		{"missing dependency", func() Vars { v := base; v.Missing = true; return v }()},
	}
	for _, c := range cases {
		var seq []string
		var runErr error
		x.withRoot(func(root string) {
			writeTree(root, c.v.render())
			be := &bodyEnv{root: root, fail: map[string]bool{}}
			for i, f := range c.v.Fail {
				if f {
					be.fail[failName[i]] = true
				}
			}
			proj, err := dawn.Load(root, &dawn.LoadOptions{Args: c.v.args(), Builtins: be.builtins()})
			if err != nil {
				vlib.Fatalf("repl protocol project does not load: %v", err)
			}
			pkg, _ := label.Parse("//")
			thread, globals := proj.REPLEnv(os.Stderr, pkg)
			var mu sync.Mutex
			cb := starlark.NewBuiltin("cb", func(_ *starlark.Thread, _ *starlark.Builtin, args starlark.Tuple, _ []starlark.Tuple) (starlark.Value, error) {
				ev := args[0].(starlark.HasAttrs)
				kind, _ := ev.Attr("kind")
				lbl, _ := ev.Attr("label")
				k, _ := starlark.AsString(kind)
				l := ""
				if lbl != nil {
					l, _ = starlark.AsString(lbl)
				}
				mu.Lock()
				seq = append(seq, k+" "+l)
				mu.Unlock()
				return starlark.None, nil
			})
			_, runErr = starlark.Call(thread, globals["run"], starlark.Tuple{starlark.String(tTop)}, []starlark.Tuple{{starlark.String("callback"), cb}})
		})
		r.Add("repl_callback_builds", 1)
		per := map[string][]string{}
		for _, e := range seq {
			p := strings.SplitN(e, " ", 2)
			if p[0] == "Print" || p[0] == "RunDone" {
				continue
			}
			per[p[1]] = append(per[p[1]], strings.TrimPrefix(p[0], "Target"))
		}
		for l, ks := range per {
			s := strings.Join(ks, " ")
			ok := s == "UpToDate" || s == "Evaluating Succeeded" || s == "Evaluating Failed" || s == "Failed"
			if !ok {
				x.r.Violation("C18:protocol:callback-stream", fmt.Sprintf("scenario %q: a run(callback=...) consumer sees the event kinds [%s] for %s (Run returned %v)", c.name, s, l, runErr),
					map[string]any{"scenario": c.name, "events": seq})
			}
		}
	}
}

// ---- C18 (e): two builds on one loaded Project (REPL, library use): each build delivers its own
// output lines exactly once ----

func (x *searcher) doubleRunLines(r *vlib.Run) {
	for _, failing := range []bool{false, true} {
		body := "def _t(t):\n    say(\"line one\\npartial\")\n"
		if failing {
			// the body fails after its output (a compiler's error message without a final newline)
			body += "    step(\"t\")\n"
		}
		files := map[string]string{
			"dawn.toml":  "name = \"p\"\n",
			"BUILD.dawn": body + "target(name=\"t\", function=_t, always=True)\n",
		}
		var runs [][]string
		var afterFailed bool
		x.withRoot(func(root string) {
			writeTree(root, files)
			rec := newRecorder()
			be := &bodyEnv{root: root, fail: map[string]bool{"t": failing}}
			proj, err := dawn.Load(root, &dawn.LoadOptions{Events: rec, Builtins: be.builtins()})
			if err != nil {
				vlib.Fatalf("double-run project does not load: %v", err)
			}
			l, _ := label.Parse("//:t")
			// a dry run first (REPL: run(t, dry_run=True) then run(t)): it prints nothing, and the
			// runs with nil options that follow are real builds again
			if err := proj.Run(l, &dawn.RunOptions{DryRun: true}); err != nil {
				vlib.Fatalf("double-run project: dry run: %v", err)
			}
			for _, e := range rec.ev {
				if e.Kind == "Print" {
					x.r.Violation("C18:lines:output-in-dry-run", fmt.Sprintf("a dry run delivered the line %q", e.Line), map[string]any{"files": files})
				}
			}
			for i := 0; i < 3; i++ {
				rec.mu.Lock()
				rec.ev = nil
				rec.mu.Unlock()
				if err := proj.Run(l, nil); (err != nil) != failing {
					x.r.Violation("C18:protocol:reused-project-run-result", fmt.Sprintf("build %d with nil options on one loaded Project (after a dry run) returned %v; the body fails: %v", i+1, err, failing), map[string]any{"files": files, "body_fails": failing})
					return
				}
				var lines []string
				done := false
				for _, e := range rec.ev {
					if e.Label != "//:t" {
						continue
					}
					switch e.Kind {
					case "Print":
						lines = append(lines, e.Line)
						afterFailed = afterFailed || done
					case "Failed", "Succeeded":
						done = true
					}
				}
				runs = append(runs, lines)
			}
		})
		r.Add("double_run_builds", int64(len(runs)))
		for i, lines := range runs {
			if strings.Join(lines, "|") != "line one|partial" {
				x.r.Violation("C18:lines:stale-partial-line-on-reused-project", fmt.Sprintf("build %d on one loaded Project delivered the lines %q for a body (failing afterwards: %v) that writes \"line one\\npartial\"", i+1, lines, failing),
					map[string]any{"files": files, "lines_per_build": runs, "body_fails_after_output": failing})
				break
			}
		}
		if afterFailed {
			x.r.Violation("C18:lines:output-after-completion", "a line of a target's output was delivered after its Succeeded/Failed event", map[string]any{"files": files, "lines_per_build": runs})
		}
	}
}

// ---- C18 (f): output of a real child process that writes to both of its streams ----
//
// A body runs os.exec on a shell loop that writes N lines alternately to standard output and
// standard error. Both streams of a target are one sink: the lines must arrive whole, once,
// and in the order they were written (the child writes them one after the other).
func (x *searcher) execLines(r *vlib.Run) {
	const n = 1500
	files := map[string]string{
		"dawn.toml":  "name = \"p\"\n",
		"BUILD.dawn": fmt.Sprintf("def _t(t):\n    os.exec([\"sh\", \"-c\", \"i=0; while [ $i -lt %d ]; do echo out-$i; echo err-$i 1>&2; i=$((i+1)); done\"], try_=True)\ntarget(name=\"t\", function=_t)\n", n),
	}
	var lines []string
	var runErr error
	x.withRoot(func(root string) {
		writeTree(root, files)
		rec := newRecorder()
		proj, err := dawn.Load(root, &dawn.LoadOptions{Events: rec, Builtins: starlark.StringDict{"os": starlark_os.Module}})
		if err != nil {
			vlib.Fatalf("exec-lines project does not load: %v", err)
		}
		l, _ := label.Parse("//:t")
		runErr = proj.Run(l, nil)
		for _, e := range rec.ev {
			if e.Kind == "Print" && e.Label == "//:t" {
				lines = append(lines, e.Line)
			}
		}
	})
	r.Add("exec_lines", int64(len(lines)))
	if runErr != nil {
		vlib.Fatalf("exec-lines project does not build (is sh available?): %v", runErr)
	}
	bad := ""
	if len(lines) != 2*n {
		bad = fmt.Sprintf("%d lines delivered, %d written", len(lines), 2*n)
	}
	for i := 0; bad == "" && i < n; i++ {
		if lines[2*i] != fmt.Sprintf("out-%d", i) || lines[2*i+1] != fmt.Sprintf("err-%d", i) {
			bad = fmt.Sprintf("lines %d and %d are %q and %q, written were %q and %q", 2*i, 2*i+1, lines[2*i], lines[2*i+1], fmt.Sprintf("out-%d", i), fmt.Sprintf("err-%d", i))
		}
	}
	if bad != "" {
		x.r.Violation("C18:lines:child-process-output", "output of a child process writing alternately to stdout and stderr: "+bad, map[string]any{"files": files, "first_lines": lines[:min(len(lines), 12)]})
	}
}

// ---- C14: collections while one Project stays loaded and is reloaded (watch mode, REPL) ----
//
// A small project whose only target lists a set of sources that changes between reloads (every
// subset of {a.txt, b.txt}, the empty one included: then no source record is live). Every
// sequence of <=4 operations {set the sources to S, Reload, Run} / {GC on the loaded Project} is
// run twice, with and without its collections: every Run must end the same way and execute the
// same bodies in both.
func (x *searcher) gcUnderLongLivedProject(r *vlib.Run) {
	sets := [][]string{{}, {"a.txt"}, {"b.txt"}, {"a.txt", "b.txt"}}
	build := func(set []string) string {
		q := make([]string, len(set))
		for i, s := range set {
			q[i] = fmt.Sprintf("%q", s)
		}
		return "def _pack(t):\n    step(\"pack\")\ntarget(name=\"pack\", function=_pack, sources=[" + strings.Join(q, ", ") + "])\n"
	}
	const gc = 4 // operation index of the collection
	var seqs [][]int
	var gen func(prefix []int)
	gen = func(prefix []int) {
		if len(prefix) > 0 {
			hasGC := false
			for _, o := range prefix {
				hasGC = hasGC || o == gc
			}
			if hasGC && prefix[len(prefix)-1] != gc {
				seqs = append(seqs, append([]int{}, prefix...))
			}
		}
		if len(prefix) == 4 {
			return
		}
		for o := 0; o <= gc; o++ {
			gen(append(prefix, o))
		}
	}
	gen(nil)
	play := func(seq []int, withGC bool) []string {
		var out []string
		x.withRoot(func(root string) {
			writeTree(root, map[string]string{"dawn.toml": "name = \"p\"\n", "a.txt": "a\n", "b.txt": "b\n", "BUILD.dawn": build(sets[1])})
			be := &bodyEnv{root: root, fail: map[string]bool{}}
			proj, err := dawn.Load(root, &dawn.LoadOptions{Events: dawn.DiscardEvents, Builtins: be.builtins()})
			if err != nil {
				vlib.Fatalf("long-lived project does not load: %v", err)
			}
			l, _ := label.Parse("//:pack")
			runIt := func() {
				be.mu.Lock()
				be.steps = nil
				be.mu.Unlock()
				err := proj.Run(l, nil)
				out = append(out, fmt.Sprintf("run: err=%v executed=%v", err != nil, len(be.steps) > 0))
			}
			runIt()
			for _, o := range seq {
				if o == gc {
					if withGC {
						if err := proj.GC(); err != nil {
							out = append(out, "gc error: "+err.Error())
						}
					}
					continue
				}
				os.WriteFile(filepath.Join(root, "BUILD.dawn"), []byte(build(sets[o])), 0o644)
				if err := proj.Reload(); err != nil {
					out = append(out, "reload error: "+err.Error())
					return
				}
				runIt()
			}
		})
		return out
	}
	var mu sync.Mutex
	r.Parallel(len(seqs), func(i int) {
		with, without := play(seqs[i], true), play(seqs[i], false)
		mu.Lock()
		defer mu.Unlock()
		r.Add("long_lived_project_sequences", 1)
		if strings.Join(with, "|") != strings.Join(without, "|") {
			names := []string{"sources={}", "sources={a}", "sources={b}", "sources={a,b}", "gc"}
			var h []string
			for _, o := range seqs[i] {
				h = append(h, names[o])
			}
			x.r.Violation("C14:gc:changes-next-build-of-a-long-lived-project", fmt.Sprintf("one loaded Project, [load, run, %s] (every sources= step is followed by Reload and Run): with the collections the runs give %v, without them %v", strings.Join(h, ", "), with, without),
				map[string]any{"sequence": h, "with_gc": with, "without_gc": without})
		}
	})
}
