package main

import (
	"fmt"
	"sort"
	"strings"
)

// TModel is what the reference model remembers about one function target: what its latest
// successful execution consumed.
type TModel struct {
	Ran        bool
	Failed     bool // the latest attempt failed
	Unfinished bool // a body started in a build that died before acknowledging it
	Env        string
	Src        string
	Code       string // the code (comments and blank lines aside) of the files that define T's function and the helpers it loads
	SawLatest  map[string]bool // per dependency: the latest successful execution of T consumed D's latest one
}

type Model struct {
	T map[string]*TModel
}

func newModel() Model {
	m := Model{T: map[string]*TModel{}}
	for _, t := range []string{tGen, tMid, tTop, tLeaf, tOther, tColon, tOtherAll, tDocs} {
		m.T[t] = &TModel{SawLatest: map[string]bool{}}
	}
	return m
}

func (m Model) clone() Model {
	n := Model{T: map[string]*TModel{}}
	for k, t := range m.T {
		c := *t
		c.SawLatest = map[string]bool{}
		for d, b := range t.SawLatest {
			c.SawLatest[d] = b
		}
		n.T[k] = &c
	}
	return n
}

func (m Model) String() string {
	var ks []string
	for k := range m.T {
		ks = append(ks, k)
	}
	sort.Strings(ks)
	var b strings.Builder
	for _, k := range ks {
		t := m.T[k]
		var ds []string
		for d, s := range t.SawLatest {
			ds = append(ds, fmt.Sprintf("%s=%v", d, s))
		}
		sort.Strings(ds)
		fmt.Fprintf(&b, "%s{ran=%v failed=%v unfinished=%v env=%q src=%q code=%q saw=%v} ", k, t.Ran, t.Failed, t.Unfinished, t.Env, t.Src, t.Code, ds)
	}
	return b.String()
}

// whyStale returns "" if target t is current w.r.t. the given tree, else the first reason.
func (m Model) whyStale(t string, v Vars, files map[string]string) string {
	tm := m.T[t]
	switch {
	case !tm.Ran:
		return "never-executed"
	case tm.Failed:
		return "failed-last-time"
	case tm.Unfinished:
		return "unfinished-execution"
	case tm.Env != v.env(t):
		return "environment-changed"
	}
	if tm.Src != v.srcs(t, files) {
		if t == tMid && sameMultiset(tm.Src, v.srcs(t, files)) {
			return "source-directory-entry-renamed"
		}
		return "source-changed"
	}
	for _, o := range declaredOutputs(t) {
		if _, ok := files[o]; !ok {
			return "declared-output-missing"
		}
	}
	for _, d := range v.deps(t) {
		if !tm.SawLatest[d] {
			return "dependency-executed-since"
		}
	}
	return ""
}

// sameMultiset: the two directory descriptions have the same contents under different names.
func sameMultiset(a, b string) bool {
	conts := func(s string) string {
		s = s[:strings.IndexByte(s, '|')]
		var cs []string
		for _, e := range strings.Split(s, ";") {
			if i := strings.IndexByte(e, '='); i >= 0 {
				cs = append(cs, e[i+1:])
			}
		}
		sort.Strings(cs)
		return strings.Join(cs, ";")
	}
	if !strings.Contains(a, "|") || !strings.Contains(b, "|") {
		return false
	}
	return a[strings.IndexByte(a, '|'):] == b[strings.IndexByte(b, '|'):] && conts(a) == conts(b)
}

// apply updates the model with the events of one real (non-dry) build, in event order.
func (m Model) apply(ev []Event, v Vars, after map[string]string) {
	evaluating := map[string]bool{}
	for _, e := range ev {
		tm, ok := m.T[e.Label]
		if !ok {
			continue
		}
		switch e.Kind {
		case "Evaluating":
			evaluating[e.Label] = true
		case "Succeeded":
			if !evaluating[e.Label] {
				continue
			}
			tm.Ran, tm.Failed, tm.Unfinished = true, false, false
			tm.Env = v.env(e.Label)
			tm.Src = v.srcs(e.Label, after)
			tm.Code = v.codeText(e.Label)
			for _, d := range v.deps(e.Label) {
				tm.SawLatest[d] = true
			}
			for _, u := range m.T {
				if u != tm {
					if _, ok := u.SawLatest[e.Label]; ok {
						u.SawLatest[e.Label] = false
					}
				}
			}
		case "Failed":
			if evaluating[e.Label] {
				tm.Failed = true
			}
		}
	}
}
