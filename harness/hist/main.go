// hist — C01, C02, C13, C14, C18(a) (and C03 in crash mode, see crash.go): explicit-state
// breadth-first search over build histories on real project directories. A state is the
// project's source variables, its artefacts (generated files, outputs, .dawn/build) and the
// reference model; a transition materialises the state on tmpfs, performs one operation
// through dawn's public API on a freshly loaded Project and reads the directory back.
package main

import (
	"crypto/sha256"
	"encoding/hex"
	"encoding/json"
	"flag"
	"fmt"
	"os"
	"path/filepath"
	"regexp"
	"runtime"
	"sort"
	"strings"
	"sync"
	"sync/atomic"

	"github.com/pgavlin/dawn/internal/verif/vlib"
)

var fProp = flag.String("prop", "C01", "C01|C02|C03|C13|C14|C18")
var fMode = flag.String("mode", "", "C18 only: sched = explore interleavings of Project.Run under the controlled scheduler")
var fBound = flag.Int("bound", -1, "override preemption bound (sched mode)")
var fDepth = flag.Int("depth", 0, "override BFS depth")
var fOps = flag.String("ops", "", "debug: comma-separated op names to restrict the alphabet")

type State struct {
	V       Vars
	Art     map[string]string // artefacts: gen/, out/, .dawn/
	M       Model
	Hist    []string
	Crashed bool // the history contains a crash (C02's minimality is then not asserted)
	GCd     bool
	LoadV   *Vars // the source variables at the last full load of the project (nil: never loaded)
}

func (s *State) files() map[string]string {
	f := s.V.render()
	for k, v := range s.Art {
		f[k] = v
	}
	return f
}

// labelSet names the labels the BUILD files declare for these variables.
func labelSet(v Vars) string { return strings.Join(v.targets(), ",") + fmt.Sprint(v.XSrc) }

func (s *State) key() string {
	h := sha256.New()
	fmt.Fprintf(h, "%+v|%s|%s|%v", s.V, hashFiles(canonArt(s.Art)), s.M.String(), s.Crashed)
	if s.LoadV != nil {
		fmt.Fprintf(h, "|loaded:%v", labelSet(*s.LoadV))
	}
	return hex.EncodeToString(h.Sum(nil))[:24]
}

var runIDInTemp = regexp.MustCompile(`("run":"|#)[0-9a-f]{16}`)

// canonArt normalises what cannot matter: names of leftover temporaries, and the identifiers
// of executions ("run" ids), which dawn only ever compares for equality: they are renamed in
// order of first occurrence over the records in path order.
func canonArt(art map[string]string) map[string]string {
	out := map[string]string{}
	var temps, recs []string
	for k, v := range art {
		switch {
		case strings.HasPrefix(k, ".dawn/build/temp/") && !strings.HasSuffix(k, "/"):
			// leftover temporaries are never read back; the run identifiers inside them are random
			temps = append(temps, runIDInTemp.ReplaceAllString(v, "$1?"))
		case strings.HasPrefix(k, ".dawn/build/targets/") || strings.HasPrefix(k, ".dawn/build/sources/"):
			recs = append(recs, k)
		default:
			out[k] = v
		}
	}
	sort.Strings(temps)
	for i, t := range temps {
		out[fmt.Sprintf(".dawn/build/temp/#%d", i)] = t
	}
	sort.Strings(recs)
	ren := map[string]string{}
	name := func(id string) string {
		if id == "" {
			return ""
		}
		if _, ok := ren[id]; !ok {
			ren[id] = fmt.Sprintf("r%d", len(ren))
		}
		return ren[id]
	}
	for _, k := range recs {
		var rec struct {
			Doc   string            `json:"doc"`
			Deps  map[string]string `json:"dependencies"`
			Stamp string            `json:"stamp"`
			Rerun bool              `json:"rerun"`
			Run   string            `json:"run"`
		}
		if err := json.Unmarshal([]byte(art[k]), &rec); err != nil {
			out[k] = art[k] // not a well-formed record (stray or torn file): keep the bytes
			continue
		}
		var b strings.Builder
		fmt.Fprintf(&b, "doc=%q stamp=%s rerun=%v run=%s", rec.Doc, rec.Stamp, rec.Rerun, name(rec.Run))
		var ds []string
		for d := range rec.Deps {
			ds = append(ds, d)
		}
		sort.Strings(ds)
		for _, d := range ds {
			st := rec.Deps[d]
			if i := strings.LastIndexByte(st, '#'); i >= 0 {
				st = st[:i] + "#" + name(st[i+1:])
			}
			fmt.Fprintf(&b, " dep[%s]=%s", d, st)
		}
		out[k] = b.String()
	}
	return out
}

func (s *State) child(op string) *State {
	n := &State{V: s.V, Art: map[string]string{}, M: s.M.clone(), Crashed: s.Crashed, GCd: s.GCd, LoadV: s.LoadV}
	for k, v := range s.Art {
		n.Art[k] = v
	}
	n.Hist = append(append([]string{}, s.Hist...), op)
	return n
}

func artOf(tree map[string]string) map[string]string {
	a := map[string]string{}
	for k, v := range tree {
		if isArtefact(k) {
			a[k] = v
		}
	}
	return a
}

// ---- operations -------------------------------------------------------------------------------------

type Op struct {
	Name  string
	Edit  func(s *State) bool // returns false if not applicable
	Build *buildOpts
}

func edits() []Op {
	tog := func(name string, f func(v *Vars)) Op {
		return Op{Name: name, Edit: func(s *State) bool { f(&s.V); return true }}
	}
	del := func(name, path string) Op {
		return Op{Name: name, Edit: func(s *State) bool {
			if _, ok := s.Art[path]; !ok {
				return false
			}
			delete(s.Art, path)
			return true
		}}
	}
	return []Op{
		tog("edit:src/a.txt", func(v *Vars) { v.A = 1 - v.A }),
		tog("edit:pkg/b.txt", func(v *Vars) { v.B = 1 - v.B }),
		tog("edit:dir/x.txt", func(v *Vars) { v.X = 1 - v.X }),
		tog("rename:dir/y.txt<->z.txt", func(v *Vars) { v.YName = 1 - v.YName }),
		tog("addremove:dir/w.txt", func(v *Vars) { v.W = !v.W }),
		tog("link:dir/link", func(v *Vars) { v.Link = (v.Link + 1) % 4 }),
		tog("link:dir/link dangling", func(v *Vars) {
			if v.Link == 3 {
				v.Link = 0
			} else {
				v.Link = 3
			}
		}),
		tog("global:LATE", func(v *Vars) { v.Late = 1 - v.Late }),
		tog("const:K", func(v *Vars) { v.K = (v.K + 1) % len(kvals) }),
		tog("const:K int<->float", func(v *Vars) { v.KF = !v.KF }),
		tog("global:ORD order", func(v *Vars) { v.Ord = !v.Ord }),
		tog("sources:leaf +-c.txt", func(v *Vars) { v.XSrc = !v.XSrc }),
		tog("default:leaf.d", func(v *Vars) { v.D = 1 - v.D }),
		tog("code:helper", func(v *Vars) { v.H = 1 - v.H }),
		tog("global:G", func(v *Vars) { v.G = 1 - v.G }),
		tog("closure:V", func(v *Vars) { v.V = 1 - v.V }),
		tog("flag:mode", func(v *Vars) { v.FlagV = 1 - v.FlagV }),
		tog("comment:BUILD.dawn", func(v *Vars) { v.C1 = !v.C1 }),
		tog("comment+docstring:lib.dawn", func(v *Vars) { v.C2 = !v.C2 }),
		tog("comment:pkg/BUILD.dawn", func(v *Vars) { v.C3 = !v.C3 }),
		tog("edit:misc/n.txt", func(v *Vars) { v.N = 1 - v.N }),
		tog("edge:top->leaf", func(v *Vars) { v.Edge = !v.Edge }),
		tog("target:pkg:other", func(v *Vars) { v.Other = !v.Other }),
		tog("target:pkg:co:lon", func(v *Vars) { v.Colon = !v.Colon }),
		tog("broken:pkg/BUILD.dawn (duplicate target half-way)", func(v *Vars) { v.Broken = !v.Broken }),
		tog("target:pkg:other_all", func(v *Vars) { v.OtherAll = !v.OtherAll }),
		tog("fail:gen", func(v *Vars) { v.Fail[0] = !v.Fail[0] }),
		tog("fail:mid", func(v *Vars) { v.Fail[1] = !v.Fail[1] }),
		tog("fail:leaf", func(v *Vars) { v.Fail[2] = !v.Fail[2] }),
		tog("dep:missing", func(v *Vars) { v.Missing = !v.Missing }),
		tog("dep:cycle", func(v *Vars) { v.Cycle = !v.Cycle }),
		tog("dep:diamond", func(v *Vars) { v.Diamond = !v.Diamond }),
		tog("chatty", func(v *Vars) { v.Chatty = !v.Chatty }),
		tog("always:gen", func(v *Vars) { v.AlwaysGen = !v.AlwaysGen }),
		tog("sabotage:leaf", func(v *Vars) { v.Sabotage = !v.Sabotage }),
		del("delete:gen/g.txt", "gen/g.txt"),
		del("delete:out/mid", "out/mid"),
		{Name: "stray-files", Edit: func(s *State) bool {
			if _, ok := s.Art[".dawn/build/index.json"]; !ok {
				return false
			}
			if _, ok := s.Art[".dawn/build/temp/stray"]; ok {
				return false
			}
			s.Art[".dawn/build/temp/stray"] = "junk"
			s.Art[".dawn/build/targets/zz%2Fstray"] = "{}"
			s.Art[".dawn/build/sources/zz%2Fstray.txt"] = "{}"
			s.Art[".dawn/build/strayfile"] = "x"
			delete(s.Art, ".dawn/build/temp/")
			return true
		}},
	}
}

func builds() []Op {
	b := func(name string, o buildOpts) Op { return Op{Name: name, Build: &o} }
	return []Op{
		b("build:top", buildOpts{Target: tTop}),
		b("build:mid", buildOpts{Target: tMid}),
		b("build:gen", buildOpts{Target: tGen}),
		b("build:leaf", buildOpts{Target: tLeaf}),
		b("build:top(process started in misc/)", buildOpts{Target: tTop, ChildCwd: "misc"}),
		b("build:docs", buildOpts{Target: tDocs}),
		b("build:top:always", buildOpts{Target: tTop, Always: true}),
		b("build:other", buildOpts{Target: tOther}),
		b("build:colon", buildOpts{Target: tColon}),
		b("build:gen+top(one load)", buildOpts{Target: tGen, Then: tTop}),
		b("build:mid+top(one load)", buildOpts{Target: tMid, Then: tTop}),
		b("build:leaf+top(one load)", buildOpts{Target: tLeaf, Then: tTop}),
		b("interrupt:build:gen(dies between gen's two outputs)", buildOpts{Target: tGen, Interrupt: "out/gen.side"}),
		b("interrupt:build:mid(dies in mid's body)", buildOpts{Target: tMid, Interrupt: "out/mid"}),
		b("dry:top", buildOpts{Target: tTop, Dry: true}),
		b("dry:mid", buildOpts{Target: tMid, Dry: true}),
		b("session:build:top,+pkg:other,reload,build:other", buildOpts{Target: tTop, Then: tOther, Session: &Vars{}}),
		b("session:build:top(mid's body fails; repaired; build:top)", buildOpts{Target: tTop, RetryAfter: "mid"}),
		b("session:build:top(leaf's body fails; repaired; build:top)", buildOpts{Target: tTop, RetryAfter: "leaf"}),
		b("build:top+gc(one load)", buildOpts{Target: tTop, GCAfterRun: true}),
		b("build:leaf+gc(one load)", buildOpts{Target: tLeaf, GCAfterRun: true}),
		b("gc:full", buildOpts{GC: true}),
		b("gc:index", buildOpts{GC: true, PreferIndex: true}),
	}
}

type focus struct {
	ops   []string
	depth int
}

func focused(prop string, thorough bool) []focus {
	d := 0
	if thorough {
		d = 2
	}
	switch prop {
	case "C01":
		return []focus{
			{[]string{"edit:src/a.txt", "code:helper", "build:gen", "build:mid", "build:top"}, 8 + d},
			{[]string{"link:dir/link", "edit:misc/n.txt", "edit:dir/x.txt", "build:mid", "build:top"}, 7 + d},
			{[]string{"link:dir/link dangling", "edit:dir/x.txt", "addremove:dir/w.txt", "build:mid", "build:top"}, 6 + d},
			{[]string{"edit:pkg/b.txt", "default:leaf.d", "flag:mode", "build:leaf", "build:top"}, 7 + d},
			{[]string{"sources:leaf +-c.txt", "edit:pkg/b.txt", "build:leaf", "build:top"}, 6 + d},
			{[]string{"global:LATE", "delete:gen/g.txt", "fail:gen", "build:gen", "build:top"}, 7 + d},
			{[]string{"fail:mid", "edit:dir/x.txt", "build:mid", "build:top"}, 8 + d},
			{[]string{"edit:pkg/b.txt", "edit:src/a.txt", "build:gen+top(one load)", "build:leaf+top(one load)", "build:mid+top(one load)", "build:top"}, 5 + d},
			{[]string{"dep:diamond", "edit:src/a.txt", "code:helper", "build:leaf", "build:mid", "build:top"}, 6 + d},
			// a build started from a subdirectory that holds files named like the declared outputs
			{[]string{"delete:gen/g.txt", "edit:src/a.txt", "build:top(process started in misc/)", "build:mid"}, 4 + d},
			// one loaded Project: a body fails, the cause (not an input) is repaired, the build is repeated
			{[]string{"default:leaf.d", "edit:dir/x.txt", "session:build:top(mid's body fails; repaired; build:top)", "session:build:top(leaf's body fails; repaired; build:top)", "build:top"}, 4 + d},
			// builds interrupted by the death of the process inside a body
			{[]string{"delete:gen/g.txt", "edit:src/a.txt", "code:helper", "interrupt:build:gen(dies between gen's two outputs)", "interrupt:build:mid(dies in mid's body)", "build:mid", "build:top"}, 5 + d},
			// edits between values that compare equal but can be told apart by the function
			{[]string{"const:K int<->float", "global:ORD order", "const:K", "build:mid", "build:top"}, 6 + d},
		}
	case "C13":
		return []focus{
			// dry runs after a build that was interrupted by the death of the process
			{[]string{"delete:gen/g.txt", "edit:src/a.txt", "interrupt:build:gen(dies between gen's two outputs)", "interrupt:build:mid(dies in mid's body)", "dry:mid", "build:mid"}, 5 + d},
		}
	case "C02":
		return []focus{
			{[]string{"link:dir/link", "edit:misc/n.txt", "comment:BUILD.dawn", "build:mid", "build:top"}, 7 + d},
			{[]string{"global:LATE", "comment+docstring:lib.dawn", "edit:src/a.txt", "build:gen", "build:top"}, 7 + d},
		}
	}
	return nil
}

func alphabetOf(names []string) []Op {
	byName := map[string]Op{}
	for _, o := range append(edits(), builds()...) {
		byName[o.Name] = o
	}
	var out []Op
	for _, n := range names {
		o, ok := byName[n]
		if !ok {
			vlib.Fatalf("unknown op %q", n)
		}
		out = append(out, o)
	}
	return out
}

func alphabet(prop string, thorough bool) []Op {
	byName := map[string]Op{}
	for _, o := range append(edits(), builds()...) {
		byName[o.Name] = o
	}
	pick := func(names ...string) []Op {
		var out []Op
		for _, n := range names {
			o, ok := byName[n]
			if !ok {
				vlib.Fatalf("unknown op %q", n)
			}
			out = append(out, o)
		}
		return out
	}
	if *fOps != "" {
		return pick(strings.Split(*fOps, ",")...)
	}
	all := []string{}
	for _, o := range append(edits(), builds()...) {
		// a dependency cycle makes Run return while other targets are still running; in the
		// free-running search nothing joins them, so cycles are left to the controlled-scheduler
		// pass (C18 second pass, C05)
		// an injected record-write fault hits whichever targets happen to be saving at that moment:
		// it belongs to the protocol check only (C18), whose oracle does not depend on who was hit
		if strings.HasPrefix(o.Name, "broken:") && prop != "C14" {
			continue // build files that do not load: C14 (what a failed load leaves for a later collection)
		}
		if (strings.HasPrefix(o.Name, "interrupt:") || strings.Contains(o.Name, "(process started in")) && prop != "C01" {
			continue // interrupted builds: C01 here, every crash point in C03
		}
		if (strings.Contains(o.Name, "(one load)") || strings.HasPrefix(o.Name, "session:")) && (prop == "C02" || prop == "C18") {
			// two runs on one loaded Project: C02 quantifies over builds that are each preceded by
			// a fresh load, and C18's automaton is per build (its own one-Project part is (e))
			continue
		}
		if o.Name != "dep:cycle" && (o.Name != "sabotage:leaf" || prop == "C18") {
			all = append(all, o.Name)
		}
	}
	switch prop {
	case "C01":
		if thorough {
			// deleting an undeclared output is tampering that no build is asked to repair: the
			// differential with a from-scratch build would blame dawn for it (it stays in C02's alphabet)
			var ops []string
			for _, n := range all {
				if n != "delete:out/mid" {
					ops = append(ops, n)
				}
			}
			return pick(ops...)
		}
		return pick("edit:src/a.txt", "edit:pkg/b.txt", "rename:dir/y.txt<->z.txt", "addremove:dir/w.txt", "const:K", "default:leaf.d", "code:helper", "closure:V",
			"edge:top->leaf", "fail:mid", "delete:gen/g.txt", "build:top", "build:mid", "build:gen", "build:leaf", "build:mid+top(one load)")
	case "C04":
		return pick("edit:src/a.txt", "edit:pkg/b.txt", "dep:diamond", "edge:top->leaf", "const:K", "fail:gen", "build:top", "build:mid", "build:leaf", "build:top:always")
	case "C02":
		if thorough {
			return pick(all...)
		}
		return pick("edit:src/a.txt", "edit:dir/x.txt", "const:K", "global:G", "flag:mode", "comment:BUILD.dawn", "comment+docstring:lib.dawn", "comment:pkg/BUILD.dawn",
			"edit:misc/n.txt", "target:pkg:other", "delete:out/mid", "fail:leaf", "build:top", "build:mid", "build:leaf", "gc:full", "dry:top", "dep:diamond", "build:docs")
	case "C13":
		if thorough {
			return pick(all...)
		}
		return pick("edit:src/a.txt", "edit:pkg/b.txt", "const:K", "edge:top->leaf", "fail:gen", "delete:gen/g.txt", "always:gen", "dep:missing",
			"build:top", "build:mid", "dry:top", "dry:mid", "target:pkg:other")
	case "C14":
		if thorough {
			return pick(all...)
		}
		return pick("edit:src/a.txt", "addremove:dir/w.txt", "target:pkg:other", "target:pkg:co:lon", "target:pkg:other_all", "edge:top->leaf", "stray-files", "delete:gen/g.txt",
			"build:top", "build:leaf", "build:colon", "gc:full", "gc:index", "build:top+gc(one load)", "build:leaf+gc(one load)", "session:build:top,+pkg:other,reload,build:other", "broken:pkg/BUILD.dawn (duplicate target half-way)")
	case "C18":
		if thorough {
			return pick(all...)
		}
		return pick("edit:src/a.txt", "const:K", "fail:gen", "fail:leaf", "edge:top->leaf", "dep:missing", "chatty", "sabotage:leaf",
			"build:top", "build:mid", "build:top:always", "dry:top")
	}
	vlib.Fatalf("no alphabet for %s", prop)
	return nil
}

// ---- the search -------------------------------------------------------------------------------------

type searcher struct {
	r       *vlib.Run
	prop    string
	roots   chan string
	clean   sync.Map // sources hash + target -> map[string]string (outputs of a from-scratch build)
	nTrans  atomic.Int64
	nBuilds atomic.Int64
}

type replayFile struct {
	History  []string          `json:"history"`
	Files    map[string]string `json:"tree_before_last_operation"`
	Model    string            `json:"model_before"`
	Observed string            `json:"observed"`
	Events   []string          `json:"events_of_last_operation"`
}

func evStrings(ev []Event) []string {
	var out []string
	for _, e := range ev {
		s := e.Kind + " " + e.Label
		if e.Reason != "" {
			s += " reason=" + e.Reason
		}
		if e.Err != "" {
			s += " err=" + e.Err
		}
		if e.Line != "" {
			s += " line=" + e.Line
		}
		out = append(out, s)
	}
	return out
}

func (x *searcher) violation(sig, what string, before *State, hist []string, res *buildResult) {
	var ev []string
	if res != nil {
		ev = evStrings(res.Events)
	}
	x.r.Violation(x.prop+":"+sig, fmt.Sprintf("%s; history=%v", what, hist), replayFile{History: hist, Files: before.files(), Model: before.M.String(), Observed: what, Events: ev})
}

func (x *searcher) withRoot(f func(root string)) {
	root := <-x.roots
	defer func() { x.roots <- root }()
	f(root)
}

// runBuild materialises state s and performs one build-type operation.
func (x *searcher) runBuild(s *State, o buildOpts) *buildResult {
	if o.ChildCwd != "" {
		return x.childBuild(s, o)
	}
	var res *buildResult
	x.withRoot(func(root string) {
		writeTree(root, s.files())
		res = build(root, s.V, o)
	})
	x.nBuilds.Add(1)
	return res
}

// cleanOutputs returns the artefacts a from-scratch build of target t produces for sources v.
func (x *searcher) cleanOutputs(v Vars, t string) map[string]string {
	v.Fail = [3]bool{}
	v.Sabotage = false // injected faults are not part of the tree
	src := v.render()
	k := hashFiles(src) + "|" + t + fmt.Sprint(v.args())
	if c, ok := x.clean.Load(k); ok {
		return c.(map[string]string)
	}
	var res *buildResult
	x.withRoot(func(root string) {
		writeTree(root, src)
		res = build(root, v, buildOpts{Target: t})
	})
	if res.LoadErr != nil || res.RunErr != nil {
		// no reference outputs for this tree (a tree whose clean build fails while an incremental
		// build of the same target succeeded would be remarkable: report it as a harness error)
		vlib.Fatalf("from-scratch build of %s failed: %v %v (vars %+v)", t, res.LoadErr, res.RunErr, v)
	}
	x.clean.Store(k, res.After)
	return res.After
}

// step applies op to s and returns the successors; oracles fire inside.
func (x *searcher) step(s *State, op Op) []*State {
	x.nTrans.Add(1)
	n := s.child(op.Name)
	if op.Edit != nil {
		if !op.Edit(n) {
			return nil
		}
		return []*State{n}
	}
	o := *op.Build
	if o.Session != nil {
		// one long-lived Project: build top, //pkg:other appears, reload, build it
		if s.V.Other || s.V.Broken {
			return nil
		}
		v2 := s.V
		v2.Other = true
		o.Session = &v2
		res := x.runBuild(s, o)
		if res.LoadErr != nil {
			x.violation("load-failed", "session: "+es(res.LoadErr), s, n.Hist, res)
			return nil
		}
		n.V = v2
		n.LoadV = &v2
		n.Art = artOf(res.After)
		n.M.apply(res.Events, v2, res.After)
		return []*State{n}
	}
	if o.Interrupt != "" {
		return x.interruptedBuild(s, n, o)
	}
	o.SnapLoad = o.Dry || o.GC
	res := x.runBuild(s, o)
	if s.V.Broken && (!o.PreferIndex || res.LoadErr != nil) {
		// the build files cannot be loaded: the operation fails and leaves whatever it leaves
		// (an index-preferred operation that finds a usable index does not read them)
		if res.LoadErr == nil {
			x.violation("load-succeeded-on-broken-build-file", "Load succeeded although pkg/BUILD.dawn declares a target twice", s, n.Hist, res)
			return nil
		}
		for p, c := range s.V.render() {
			if res.After[p] != c {
				x.violation("source-modified", "a failed load modified source file "+p, s, n.Hist, res)
			}
		}
		n.Art = artOf(res.After)
		return []*State{n}
	}
	if res.LoadErr != nil {
		x.violation("load-failed", "Load failed: "+es(res.LoadErr), s, n.Hist, res)
		return nil
	}
	n.Art = artOf(res.After)
	if !o.PreferIndex {
		lv := s.V
		n.LoadV = &lv // a full load happened (it rewrites the index)
	}
	x.r.Outcome("executed_sets", op.Name+":"+setString(res.Executed)+"|"+es(res.RunErr))
	// sources must never change
	for p, c := range s.V.render() {
		if res.After[p] != c {
			x.violation("source-modified", "operation modified source file "+p, s, n.Hist, res)
		}
	}
	x.checkProtocol(s, n, o, res)
	if x.prop == "C04" && !o.GC {
		x.checkOnce(s, n, o, res)
	}
	switch {
	case o.GCAfterRun:
		// judged as a build followed by a collection that sees the tree the build left
		bres := *res
		bres.After = res.AfterRun
		x.checkBuild(s, n, o, &bres)
		n.M.apply(res.Events, s.V, res.AfterRun)
		mid := &State{V: s.V, Art: artOf(res.AfterRun), M: n.M, Crashed: s.Crashed, GCd: s.GCd, Hist: n.Hist, LoadV: n.LoadV}
		gres := &buildResult{AfterLd: res.AfterRun, After: res.After, RunErr: res.GCErr, Events: res.Events, Executed: res.Executed}
		x.checkGC(mid, n, buildOpts{GC: true}, gres)
	case o.GC:
		x.checkGC(s, n, o, res)
	case o.Dry:
		x.checkDry(s, n, o, res)
	default:
		x.checkBuild(s, n, o, res)
		n.M.apply(res.Events, s.V, res.After)
	}
	return []*State{n}
}

// checkBuild: currency + differential (C01) and minimality (C02) of a real build.
func (x *searcher) checkBuild(s, n *State, o buildOpts, res *buildResult) {
	v := s.V
	if o.Then != "" {
		// two runs on one Project: judge the union through the later, larger target
		if len(v.closure(o.Then)) >= len(v.closure(o.Target)) {
			o.Target = o.Then
		}
	}
	before := s.files()
	evaluating := evaluatingSet(res.Events)
	// Evaluating <=> the body ran (non-dry)
	for _, t := range v.targets() {
		if evaluating[t] != res.Executed[t] && (x.prop == "C18" || x.prop == "C01") && !recordFault(res.Events, t) {
			x.violation("evaluating-vs-body", fmt.Sprintf("%s: evaluating event=%v but body ran=%v", t, evaluating[t], res.Executed[t]), s, n.Hist, res)
		}
	}
	if x.prop == "C02" || x.prop == "C01" {
		// minimality: every executed target must have a reason the property recognises
		if !o.Always && !s.Crashed {
			for _, t := range v.closure(o.Target) {
				if !res.Executed[t] {
					continue
				}
				why := s.M.whyStale(t, v, before)
				if why == "" && t == tGen && v.AlwaysGen {
					why = "declared-always"
				}
				if why == "" {
					// a dependency that executed in this build, or whose generated source changed
					for _, d := range v.deps(t) {
						if res.Executed[d] {
							why = "dependency-executed-now"
						}
					}
				}
				if why == "" && s.M.T[t].Code != v.codeText(t) {
					// the code of the target's own build file was edited since it last ran
					why = "own-build-file-edited"
					x.r.Add("executions_accepted_after_edit_of_own_build_file", 1)
				}
				if why == "" && x.prop == "C02" {
					reason := ""
					for _, e := range res.Events {
						if e.Kind == "Evaluating" && e.Label == t {
							reason = e.Reason
						}
					}
					x.violation("spurious-rebuild:"+sigReason(reason), fmt.Sprintf("%s re-executed (dawn's reason: %q) though none of its inputs changed since its last successful execution", t, reason), s, n.Hist, res)
				}
			}
		}
	}
	if x.prop != "C01" && x.prop != "C03" {
		return
	}
	if res.RunErr != nil {
		return
	}
	// currency of the closure after a successful build
	m := s.M.clone()
	m.apply(res.Events, v, res.After)
	for _, t := range v.closure(o.Target) {
		if why := m.whyStale(t, v, res.After); why != "" {
			x.violation("stale:"+why, fmt.Sprintf("build of %s succeeded but %s is not current: %s (executed in this build: %s)", o.Target, t, why, setString(res.Executed)), s, n.Hist, res)
		}
	}
	// differential: outputs equal those of a from-scratch build of the same tree
	clean := x.cleanOutputs(v, o.Target)
	for _, t := range v.closure(o.Target) {
		for _, p := range outputsOf(t) {
			if res.After[p] != clean[p] {
				x.violation("differs-from-clean-build", fmt.Sprintf("after building %s, %s = %q but a from-scratch build gives %q", o.Target, p, res.After[p], clean[p]), s, n.Hist, res)
			}
		}
	}
}

func sigReason(r string) string {
	for _, k := range []string{"never been run", "file contents changed", "out-of-date dependencies", "failed during last run", "does not exist", "changed"} {
		if strings.Contains(r, k) {
			return strings.ReplaceAll(k, " ", "-")
		}
	}
	return "other"
}

// maxStates and maxHeap bound the memory of one search (a state carries its artefacts).
const maxStates = 300_000
const maxHeap = 14 << 30

func heapInUse() uint64 {
	var m runtime.MemStats
	runtime.ReadMemStats(&m)
	return m.HeapAlloc
}

func (x *searcher) explore(depth int, ops []Op) {
	init := &State{V: initialVars(), Art: map[string]string{}, M: newModel()}
	seen := map[string]bool{init.key(): true}
	frontier := []*State{init}
	total := 1
	for d := 1; d <= depth && len(frontier) > 0; d++ {
		if x.r.Expired() {
			x.r.Cap(fmt.Sprintf("wall-clock budget: depth %d not started (complete to depth %d)", d, d-1))
			break
		}
		// the level is expanded in chunks and de-duplicated after each one, so that memory is
		// bounded by the distinct states (every state carries its artefacts), not by the
		// number of transitions
		const chunk = 2048
		var next []*State
		stopped := atomic.Bool{}
		full := ""
		for lo := 0; lo < len(frontier) && full == "" && !stopped.Load(); lo += chunk {
			part := frontier[lo:min(lo+chunk, len(frontier))]
			succ := make([][]*State, len(part))
			expand := func(i int) {
				if x.r.Expired() {
					stopped.Store(true)
					return
				}
				for _, op := range ops {
					succ[i] = append(succ[i], x.step(part[i], op)...)
				}
			}
			if controlled {
				// builds run under the (process-global) controlled scheduler: one at a time
				for i := range part {
					expand(i)
				}
			} else {
				x.r.Parallel(len(part), expand)
			}
			for _, ss := range succ {
				for _, s := range ss {
					k := s.key()
					if !seen[k] {
						seen[k] = true
						next = append(next, s)
					}
				}
			}
			if lo+chunk < len(frontier) {
				if total+len(next) > maxStates {
					full = fmt.Sprintf("state cap %d reached", maxStates)
				} else if h := heapInUse(); h > maxHeap {
					full = fmt.Sprintf("memory cap reached (%d MiB of states)", h>>20)
				}
			}
		}
		if stopped.Load() {
			x.r.Cap(fmt.Sprintf("wall-clock budget: depth %d only partly explored (complete to depth %d)", d, d-1))
		}
		if full != "" {
			x.r.Cap(fmt.Sprintf("%s: depth %d only partly explored (complete to depth %d)", full, d, d-1))
		}
		total += len(next)
		x.r.Add("states_at_depth_"+fmt.Sprint(d), int64(len(next)))
		if full == "" && !stopped.Load() {
			x.r.Max("depth_completed", int64(d))
		}
		frontier = next
		if full != "" {
			break
		}
		if (total > maxStates || heapInUse() > maxHeap) && d < depth {
			// memory bound: states carry their artefacts (a few KB each)
			x.r.Cap(fmt.Sprintf("state cap %d reached: complete to depth %d, depth %d not explored", maxStates, d, d+1))
			break
		}
	}
	x.r.Add("states", int64(total))
	x.r.Add("searches", 1)
}

func main() {
	flag.Parse()
	if *fDieAt >= 0 {
		dieChild()
	}
	if *fChildRoot != "" {
		interruptChild()
	}
	r := vlib.Start(*fProp)
	x := &searcher{r: r, prop: *fProp, roots: make(chan string, 64)}
	for i := 0; i < 32; i++ {
		// every project is opened through a symbolic link on its path (build state must be
		// addressed consistently whichever spelling of the path is used)
		real := filepath.Join(r.Scratch, fmt.Sprintf("real%d", i))
		link := filepath.Join(r.Scratch, fmt.Sprintf("root%d", i))
		os.MkdirAll(real, 0o755)
		os.Remove(link)
		if err := os.Symlink(real, link); err != nil {
			vlib.Fatalf("symlink: %v", err)
		}
		rp := filepath.Join(link, "p")
		if i%2 == 1 {
			rp += "/" // every other project is opened with a root that ends in a separator
		}
		x.roots <- rp
	}
	if r.ReplayIn != "" {
		x.replay()
		return
	}
	if *fProp == "C03" {
		crashMain(r, x)
		return
	}
	if *fProp == "C18" && *fMode == "sched" {
		schedMain(r, x)
		return
	}
	ops := alphabet(*fProp, r.Thorough())
	depth := 5
	if (len(ops) <= 13 || *fProp == "C14") && *fProp != "C18" {
		depth = 6
	}
	if r.Thorough() {
		depth = 8
	}
	if *fDepth > 0 {
		depth = *fDepth
	}
	var names []string
	for _, o := range ops {
		names = append(names, o.Name)
	}
	x.explore(depth, ops)
	// focused searches: small alphabets explored much deeper (reverts through partial builds,
	// links inside a source directory, ...)
	for _, f := range focused(*fProp, r.Thorough()) {
		if *fOps != "" {
			break
		}
		x.explore(f.depth, alphabetOf(f.ops))
		names = append(names, fmt.Sprintf("focused(depth %d): %s", f.depth, strings.Join(f.ops, " ")))
	}
	if *fProp == "C14" {
		x.gcUnderLongLivedProject(r)
	}
	if *fProp == "C18" {
		n := 7
		if r.Thorough() {
			n = 10
		}
		x.lineChunkings(r, n)
		x.replCallbackProtocol(r)
		x.doubleRunLines(r)
		x.execLines(r)
		r.Extra["line_writer_texts_max_len"] = n
	}
	r.Sample(map[string]any{"alphabet": names})
	r.Sample(map[string]any{"example_history": []string{"build:top", "edit:src/a.txt", "build:mid", "build:top"}})
	r.Extra["alphabet"] = names
	r.Assumptions = []string{
		"every build is preceded by a fresh dawn.Load, as the CLI and watch mode do",
		"target bodies are harness builtins that read all their declared inputs and write their outputs (no subprocesses)",
		"the thread schedule inside one build is the Go runtime's (schedules are explored by C04/C05/C09); every oracle here is schedule-independent",
		"state de-duplication on (source variables, artefact bytes incl. .dawn/build, reference model)",
	}
	r.Finish(vlib.Coverage{
		Evaluations:        x.nTrans.Load(),
		DistinctNontrivial: r.Get("states"),
		Rule:               "breadth-first search over all operation sequences up to the depth bound over the listed alphabet, on a 2-package project (helper module, closure, default, global, flag, generated file, source directory); distinct = distinct canonical states (source variables + artefact bytes + model); every transition is checked by the oracles of the property",
		States:             r.Get("states"),
		Transitions:        x.nTrans.Load(),
		TracesValidated:    x.nBuilds.Load(),
		Exhaustive:         true,
		Outcomes:           r.NumOutcomes("executed_sets"),
		Bounds:             map[string]any{"depth": r.GetMax("depth_completed"), "operations": len(ops)},
	})
}

// replay re-runs a recorded history (free-running builds; crash steps cannot be re-run outside
// the crash mode and end the replay with the recorded tree instead).
func (x *searcher) replay() {
	var rf replayFile
	x.r.LoadReplay(&rf)
	byName := map[string]Op{}
	for _, o := range append(edits(), builds()...) {
		byName[o.Name] = o
	}
	s := &State{V: initialVars(), Art: map[string]string{}, M: newModel()}
	for i, name := range rf.History {
		op, ok := byName[name]
		if !ok {
			fmt.Printf("step %d %q is not a plain operation (crash point or explored schedule): the tree before the last operation is in the replay file under tree_before_last_operation\n", i, name)
			os.Exit(0)
		}
		ns := x.step(s, op)
		if len(ns) != 1 {
			fmt.Printf("step %d %s: not applicable\n", i, name)
			os.Exit(0)
		}
		s = ns[0]
		fmt.Printf("step %d %s: ok\n", i, name)
	}
	if x.r.NumViolations() == 0 {
		fmt.Println("observed: no violation on this tree")
		os.Exit(0)
	}
	x.r.Finish(vlib.Coverage{Evaluations: x.nTrans.Load(), DistinctNontrivial: 2, States: 1, Transitions: 1, Rule: "replay"})
}
