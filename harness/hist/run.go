package main

import (
	"crypto/sha256"
	"encoding/hex"
	"fmt"
	"os"
	"path/filepath"
	"sort"
	"strings"
	"sync"

	dawn "github.com/pgavlin/dawn"
	"github.com/pgavlin/dawn/diff"
	"github.com/pgavlin/dawn/internal/verif/vos"
	"github.com/pgavlin/dawn/internal/verif/vsched"
	"github.com/pgavlin/dawn/label"
	"github.com/pgavlin/dawn/util"
	"go.starlark.net/starlark"
)

// ---- directory <-> memory -------------------------------------------------------------------

var internMu sync.Mutex
var internTab = map[string]string{}

func intern(s string) string {
	internMu.Lock()
	defer internMu.Unlock()
	if x, ok := internTab[s]; ok {
		return x
	}
	internTab[s] = s
	return s
}

// readTree returns every file under root (relative slash paths); empty directories are
// recorded as "path/" -> "".
func readTree(root string) map[string]string {
	out := map[string]string{}
	var walk func(dir, rel string)
	walk = func(dir, rel string) {
		ents, err := os.ReadDir(dir)
		if err != nil {
			return
		}
		if len(ents) == 0 && rel != "" {
			out[rel+"/"] = ""
		}
		for _, e := range ents {
			p, r := filepath.Join(dir, e.Name()), e.Name()
			if rel != "" {
				r = rel + "/" + e.Name()
			}
			if e.Type()&os.ModeSymlink != 0 {
				if t, err := os.Readlink(p); err == nil {
					out[r] = intern(symlinkPrefix + t)
				}
			} else if e.IsDir() {
				walk(p, r)
			} else {
				b, err := os.ReadFile(p)
				if err == nil {
					out[r] = intern(string(b))
				}
			}
		}
	}
	walk(root, "")
	return out
}

func writeTree(root string, files map[string]string) {
	os.RemoveAll(root)
	if err := os.MkdirAll(root, 0o755); err != nil {
		panic(err)
	}
	made := map[string]bool{}
	for p, c := range files {
		full := filepath.Join(root, filepath.FromSlash(p))
		if strings.HasSuffix(p, "/") {
			os.MkdirAll(full, 0o755)
			continue
		}
		d := filepath.Dir(full)
		if !made[d] {
			if err := os.MkdirAll(d, 0o755); err != nil {
				panic(err)
			}
			made[d] = true
		}
		if strings.HasPrefix(c, symlinkPrefix) {
			if err := os.Symlink(strings.TrimPrefix(c, symlinkPrefix), full); err != nil {
				panic(err)
			}
			continue
		}
		if err := os.WriteFile(full, []byte(c), 0o644); err != nil {
			panic(err)
		}
	}
}

// writeArtefacts writes files into an existing tree without touching anything else.
func writeArtefacts(root string, files map[string]string) {
	for p, c := range files {
		full := filepath.Join(root, filepath.FromSlash(p))
		if strings.HasSuffix(p, "/") {
			os.MkdirAll(full, 0o755)
			continue
		}
		os.MkdirAll(filepath.Dir(full), 0o755)
		if strings.HasPrefix(c, symlinkPrefix) {
			os.Symlink(strings.TrimPrefix(c, symlinkPrefix), full)
			continue
		}
		if err := os.WriteFile(full, []byte(c), 0o644); err != nil {
			panic(err)
		}
	}
}

func isArtefact(p string) bool {
	return strings.HasPrefix(p, "gen/") || strings.HasPrefix(p, "out/") || strings.HasPrefix(p, ".dawn/")
}

func hashFiles(files map[string]string) string {
	var ks []string
	for k := range files {
		ks = append(ks, k)
	}
	sort.Strings(ks)
	h := sha256.New()
	for _, k := range ks {
		fmt.Fprintf(h, "%d:%s=%d:%s;", len(k), k, len(files[k]), files[k])
	}
	return hex.EncodeToString(h.Sum(nil))[:24]
}

// ---- events -----------------------------------------------------------------------------------

type Event struct {
	At     int // number of persistent effects performed when the event was emitted (controlled mode)
	Kind   string
	Label  string
	Reason string
	Err    string
	Line   string
	Diff   diff.ValueDiff
}

type recorder struct {
	dawn.Events
	mu sync.Mutex
	ev []Event
}

func newRecorder() *recorder { return &recorder{Events: dawn.DiscardEvents} }

func (r *recorder) add(e Event) {
	e.At = vsched.EffectCount()
	r.mu.Lock()
	r.ev = append(r.ev, e)
	r.mu.Unlock()
}

func ls(l *label.Label) string {
	if l == nil {
		return ""
	}
	return l.String()
}
func es(err error) string {
	if err == nil {
		return ""
	}
	return strings.ReplaceAll(err.Error(), "\n", " ")
}

func (r *recorder) Print(l *label.Label, line string) {
	r.add(Event{Kind: "Print", Label: ls(l), Line: line})
}
func (r *recorder) ModuleLoading(l *label.Label)  { r.add(Event{Kind: "ModuleLoading", Label: ls(l)}) }
func (r *recorder) LoadDone(err error)            { r.add(Event{Kind: "LoadDone", Err: es(err)}) }
func (r *recorder) TargetUpToDate(l *label.Label) { r.add(Event{Kind: "UpToDate", Label: ls(l)}) }
func (r *recorder) TargetEvaluating(l *label.Label, reason string, d diff.ValueDiff) {
	r.add(Event{Kind: "Evaluating", Label: ls(l), Reason: reason, Diff: d})
}
func (r *recorder) TargetFailed(l *label.Label, err error) {
	r.add(Event{Kind: "Failed", Label: ls(l), Err: es(err)})
}
func (r *recorder) TargetSucceeded(l *label.Label, changed bool) {
	r.add(Event{Kind: "Succeeded", Label: ls(l)})
}
func (r *recorder) RunDone(err error) { r.add(Event{Kind: "RunDone", Err: es(err)}) }

// ---- builtins available to target bodies ----------------------------------------------------------

type bodyEnv struct {
	chunks []string // what chunks() returns (line-writer check)
	reuse  bool     // say() writes from one reused buffer
	sayBuf []byte
	root   string
	fail   map[string]bool
	mu     sync.Mutex
	steps  []string // bodies that started, in order
	stepAt map[string]int
	emits  []string
	obj    vsched.Obj
	dieBefore string // interrupted-build child: the process dies just before emitting this file
}

func (b *bodyEnv) builtins() starlark.StringDict {
	str := func(v starlark.Value) string { s, _ := starlark.AsString(v); return s }
	return starlark.StringDict{
		"step": starlark.NewBuiltin("step", func(t *starlark.Thread, fn *starlark.Builtin, args starlark.Tuple, kw []starlark.Tuple) (starlark.Value, error) {
			name := str(args[0])
			b.mu.Lock()
			b.steps = append(b.steps, name)
			if b.stepAt == nil {
				b.stepAt = map[string]int{}
			}
			b.stepAt[name] = vsched.EffectCount()
			b.mu.Unlock()
			if b.fail[name] {
				return nil, fmt.Errorf("body %s fails", name)
			}
			return starlark.None, nil
		}),
		"emit": starlark.NewBuiltin("emit", func(t *starlark.Thread, fn *starlark.Builtin, args starlark.Tuple, kw []starlark.Tuple) (starlark.Value, error) {
			p, text := str(args[0]), str(args[1])
			if b.dieBefore != "" && p == b.dieBefore {
				os.Exit(137)
			}
			vsched.Effect(&b.obj, "emit "+p)
			if vsched.Aborted() {
				return nil, fmt.Errorf("process died")
			}
			full := filepath.Join(b.root, filepath.FromSlash(p))
			os.MkdirAll(filepath.Dir(full), 0o755)
			b.mu.Lock()
			b.emits = append(b.emits, p)
			b.mu.Unlock()
			if err := os.WriteFile(full, []byte(text), 0o644); err != nil {
				return nil, err
			}
			return starlark.None, nil
		}),
		"say": starlark.NewBuiltin("say", func(t *starlark.Thread, fn *starlark.Builtin, args starlark.Tuple, kw []starlark.Tuple) (starlark.Value, error) {
			stdout, _ := util.Stdio(t)
			chunk := []byte(str(args[0]))
			if b.reuse {
				// like io.Copy / os/exec: every write comes from the same buffer, which is
				// overwritten by the next one
				if b.sayBuf == nil {
					b.sayBuf = make([]byte, 64)
				}
				n := copy(b.sayBuf, chunk)
				chunk = b.sayBuf[:n]
			}
			if _, err := stdout.Write(chunk); err != nil {
				return nil, err
			}
			if b.reuse {
				for i := range b.sayBuf {
					b.sayBuf[i] = '#' // the caller's buffer is its own again
				}
			}
			return starlark.None, nil
		}),
		"sabotage": starlark.NewBuiltin("sabotage", func(t *starlark.Thread, fn *starlark.Builtin, args starlark.Tuple, kw []starlark.Tuple) (starlark.Value, error) {
			// a fault the body itself can cause (a "clean" step, a full disk): the directory for
			// temporary record files disappears, so the result of this target cannot be recorded
			os.RemoveAll(filepath.Join(b.root, ".dawn", "build", "temp"))
			return starlark.None, nil
		}),
		"chunks": starlark.NewBuiltin("chunks", func(t *starlark.Thread, fn *starlark.Builtin, args starlark.Tuple, kw []starlark.Tuple) (starlark.Value, error) {
			var vs []starlark.Value
			for _, c := range b.chunks {
				vs = append(vs, starlark.String(c))
			}
			return starlark.NewList(vs), nil
		}),
		"slurp": starlark.NewBuiltin("slurp", func(t *starlark.Thread, fn *starlark.Builtin, args starlark.Tuple, kw []starlark.Tuple) (starlark.Value, error) {
			c, err := os.ReadFile(filepath.Join(b.root, filepath.FromSlash(str(args[0]))))
			if err != nil {
				return starlark.String("<missing>"), nil
			}
			return starlark.String(strings.TrimSpace(string(c))), nil
		}),
		"listing": starlark.NewBuiltin("listing", func(t *starlark.Thread, fn *starlark.Builtin, args starlark.Tuple, kw []starlark.Tuple) (starlark.Value, error) {
			dir := filepath.Join(b.root, filepath.FromSlash(str(args[0])))
			ents, _ := os.ReadDir(dir)
			var parts []string
			for _, e := range ents {
				c, _ := os.ReadFile(filepath.Join(dir, e.Name()))
				parts = append(parts, e.Name()+"="+strings.TrimSpace(string(c)))
			}
			sort.Strings(parts)
			return starlark.String(strings.Join(parts, ",")), nil
		}),
	}
}

// ---- one build ------------------------------------------------------------------------------------

type buildResult struct {
	LoadErr  error
	RunErr   error
	Events   []Event // events of the Run (after load)
	LoadEv   []Event
	Steps    []string
	Emits    []string
	AfterLd  map[string]string // tree after Load, before Run (only when wanted)
	After    map[string]string // tree after the operation
	Executed map[string]bool   // function-target labels whose body started
	StepAt   map[string]int
	Sched    *vsched.Result
	AfterRun map[string]string // GCAfterRun: the tree between Run and GC
	GCErr    error
	finish   func() // (re)captures events, steps and the tree; called again once every thread has finished
}

// controlled: run every build under the vsched scheduler (the binary is then built with the
// sync/os rewriting of the root package); ctl carries the per-build scheduler options.
var controlled bool

type ctlOpts struct {
	noTree   bool // do not read the tree back (the caller only looks at events)
	muted    bool // Load on the default schedule; choices start at Run
	prefix   []int
	onEffect func(idx int, desc string)
}

type buildOpts struct {
	Then        string // second target built on the SAME loaded Project right after Target (nil options), as the REPL does
	Target      string
	Always, Dry bool
	GC          bool
	PreferIndex bool
	SnapLoad    bool
	Session     *Vars  // a long-lived Project (watch mode): Run(Target), the sources change to these, Reload, Run(Then)
	GCAfterRun  bool   // Run, then GC on the SAME loaded Project (a long-lived process: REPL, watch mode, library use)
	RetryAfter  string // one loaded Project: this body fails in a first Run(Target); the cause (not a declared input) is repaired; Run(Target) again
	ChildCwd    string // the build runs in a child process started in this subdirectory of the project
	Interrupt   string // the build runs in a child process that dies just before emitting this file
}

// build materialises nothing: it loads the project found at root and runs one operation.
func build(root string, v Vars, o buildOpts) *buildResult {
	return buildCtl(root, v, o, ctlOpts{})
}

// skipTreeRead is set for the duration of one controlled build whose caller does not need the tree.
var skipTreeRead bool

func buildCtl(root string, v Vars, o buildOpts, c ctlOpts) *buildResult {
	if !controlled {
		return buildRaw(root, v, o)
	}
	skipTreeRead = c.noTree
	defer func() { skipTreeRead = false }()
	var res *buildResult
	vos.ResetTemp()
	sr := vsched.Execute(c.prefix, vsched.Options{NumCPU: 2, OnEffect: c.onEffect, Horizon: 50000, Muted: c.muted}, func() {
		res = buildRaw(root, v, o)
	})
	if res == nil {
		res = &buildResult{Executed: map[string]bool{}, LoadErr: fmt.Errorf("build did not return: %s%s%s", sr.Deadlock, sr.Livelock, sr.Panic)}
		res.After = readTree(root)
	}
	res.Sched = sr
	if res.finish != nil {
		res.finish() // every thread has finished now (targets may outlive Run after a cycle error)
	}
	return res
}

func buildRaw(root string, v Vars, o buildOpts) *buildResult {
	res := &buildResult{Executed: map[string]bool{}}
	rec := newRecorder()
	be := &bodyEnv{root: root, fail: map[string]bool{}}
	be.obj.Desc = "fs"
	for i, f := range v.Fail {
		if f {
			be.fail[failName[i]] = true
		}
	}
	proj, err := dawn.Load(root, &dawn.LoadOptions{Args: v.args(), Events: rec, Builtins: be.builtins(), PreferIndex: o.PreferIndex})
	res.LoadEv = rec.ev
	rec.ev = nil
	if err != nil {
		res.LoadErr = err
		res.After = readTree(root)
		return res
	}
	if o.SnapLoad {
		res.AfterLd = readTree(root)
	}
	vsched.Unmute()
	if o.GC {
		res.RunErr = proj.GC()
	} else {
		l, perr := label.Parse(o.Target)
		if perr != nil {
			panic(perr)
		}
		if o.RetryAfter != "" {
			be.mu.Lock()
			be.fail[o.RetryAfter] = true
			be.mu.Unlock()
			err1 := proj.Run(l, nil) // fails if that body runs
			if os.Getenv("VERIF_DEBUG") != "" {
				fmt.Fprintln(os.Stderr, "DEBUG first run:", err1, evStrings(rec.ev))
			}
			be.mu.Lock()
			delete(be.fail, o.RetryAfter)
			be.mu.Unlock()
		}
		res.RunErr = proj.Run(l, &dawn.RunOptions{Always: o.Always, DryRun: o.Dry})
		if o.Session != nil {
			// the sources change while the project stays loaded; it is reloaded, as watch mode does
			for p, c := range o.Session.render() {
				full := filepath.Join(root, filepath.FromSlash(p))
				if strings.HasPrefix(c, symlinkPrefix) {
					continue
				}
				if old, err := os.ReadFile(full); err != nil || string(old) != c {
					os.MkdirAll(filepath.Dir(full), 0o755)
					os.WriteFile(full, []byte(c), 0o644)
				}
			}
			if err := proj.Reload(); err != nil {
				res.LoadErr = err
				res.After = readTree(root)
				return res
			}
		}
		if o.Then != "" {
			// a second run on the same Project value, without reloading
			l2, _ := label.Parse(o.Then)
			if err := proj.Run(l2, nil); err != nil && res.RunErr == nil {
				res.RunErr = err
			}
		}
		if o.GCAfterRun {
			res.AfterRun = readTree(root)
			res.GCErr = proj.GC()
		}
	}
	res.finish = func() {
		rec.mu.Lock()
		res.Events = append([]Event{}, rec.ev...)
		rec.mu.Unlock()
		be.mu.Lock()
		res.Steps = append([]string{}, be.steps...)
		res.StepAt = be.stepAt
		res.Emits = append([]string{}, be.emits...)
		be.mu.Unlock()
		if !skipTreeRead {
			res.After = readTree(root)
		}
		res.Executed = map[string]bool{}
		for _, s := range res.Steps {
			for _, t := range []string{tGen, tMid, tTop, tLeaf, tOther, tColon, tOtherAll, tDocs} {
				if bodyName(t) == s {
					res.Executed[t] = true
				}
			}
		}
	}
	res.finish()
	return res
}

func evaluatingSet(ev []Event) map[string]bool {
	m := map[string]bool{}
	for _, e := range ev {
		if e.Kind == "Evaluating" {
			m[e.Label] = true
		}
	}
	return m
}

func setString(m map[string]bool) string {
	var ks []string
	for k, v := range m {
		if v {
			ks = append(ks, k)
		}
	}
	sort.Strings(ks)
	return strings.Join(ks, ",")
}

// dryThenRealSameProject performs, on ONE Project value (as watch mode and library users do):
// a dry run of target, Reload, and then Run(target, nil). It returns the result of the last run.
func dryThenRealSameProject(root string, v Vars, target string, reload bool) *buildResult {
	res := &buildResult{Executed: map[string]bool{}}
	rec := newRecorder()
	be := &bodyEnv{root: root, fail: map[string]bool{}}
	for i, f := range v.Fail {
		if f {
			be.fail[failName[i]] = true
		}
	}
	proj, err := dawn.Load(root, &dawn.LoadOptions{Args: v.args(), Events: rec, Builtins: be.builtins()})
	if err != nil {
		res.LoadErr = err
		return res
	}
	l, _ := label.Parse(target)
	proj.Run(l, &dawn.RunOptions{DryRun: true})
	if reload {
		if err := proj.Reload(); err != nil {
			res.LoadErr = err
			return res
		}
	}
	rec.mu.Lock()
	rec.ev = nil
	rec.mu.Unlock()
	be.mu.Lock()
	be.steps, be.emits = nil, nil
	be.mu.Unlock()
	res.RunErr = proj.Run(l, nil)
	res.Events = append([]Event{}, rec.ev...)
	res.Steps = be.steps
	res.After = readTree(root)
	for _, s := range be.steps {
		for _, t := range []string{tGen, tMid, tTop, tLeaf, tOther, tColon, tOtherAll, tDocs} {
			if bodyName(t) == s {
				res.Executed[t] = true
			}
		}
	}
	return res
}
