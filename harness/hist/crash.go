package main

import (
	"encoding/json"
	"flag"
	"fmt"
	"os"
	"os/exec"
	"path/filepath"
	"sort"
	"strings"

	"github.com/pgavlin/dawn/internal/verif/vlib"
	"github.com/pgavlin/dawn/internal/verif/vos"
	"github.com/pgavlin/dawn/internal/verif/vsched"
)

// C03 — failed and interrupted builds are recoverable.
//
// The binary is built with project.go/project_index.go's os redirected to vos and the root
// package's sync redirected to vsync, and every build runs under the controlled scheduler:
// exactly one thread runs, and every persistent effect (record temp-file create/write/rename,
// mkdir, index create/write, a body's emit) is preceded by a point at which the directory is
// exactly what a process death at that instant leaves behind. One execution therefore yields
// every crash state along its linearisation of the effects; other linearisations (effects of
// independent targets interleaved differently) are reached by exploring schedules.
//
// From every crash state (and every failure pattern) the search continues breadth-first with
// further edits and builds; the oracles are: the state loads; after the next successful build
// the closure is current (an unfinished or failed execution counts as not executed) and the
// outputs equal a from-scratch build.

type crashState struct {
	k     int    // effects 0..k-1 happened
	torn  string // "" or description of a torn in-place write inside effect k
	tree  map[string]string
	model Model
	desc  string
}

type effectRec struct {
	desc  string
	write []byte
	path  string
}

// crashStates runs one build of target under the scheduler with the given schedule prefix and
// returns the crash states along it.
func (x *searcher) crashStates(pre *State, o buildOpts, prefix []int, tornAll bool) ([]crashState, *buildResult) {
	var effects []effectRec
	var snaps []map[string]string
	var res *buildResult
	x.withRoot(func(root string) {
		writeTree(root, pre.files())
		var pendPath string
		var pendData []byte
		vos.OnWrite = func(path string, data []byte) { pendPath, pendData = path, append([]byte{}, data...) }
		res = buildCtl(root, pre.V, o, ctlOpts{prefix: prefix, onEffect: func(idx int, desc string) {
			clean := filepath.Clean(root) + "/" // (some roots are spelled with a trailing separator)
			e := effectRec{desc: strings.ReplaceAll(desc, clean, "")}
			if strings.HasPrefix(desc, "write ") {
				e.write, e.path = pendData, strings.TrimPrefix(pendPath, clean)
			}
			effects = append(effects, e)
			snaps = append(snaps, readTree(root))
		}})
		vos.OnWrite = nil
		snaps = append(snaps, readTree(root)) // after the last effect: the build completed
	})
	x.nBuilds.Add(1)
	if res.Sched != nil && (res.Sched.Deadlock != "" || res.Sched.Livelock != "" || res.Sched.Panic != "") {
		x.violation("build-did-not-terminate", res.Sched.Deadlock+res.Sched.Livelock+firstLine(res.Sched.Panic), pre, append(pre.Hist, "crashbuild:"+o.Target), res)
		return nil, res
	}
	var out []crashState
	for k := 0; k <= len(effects); k++ {
		cs := crashState{k: k, tree: snaps[k], model: x.modelAt(pre, o, res, effects, k, snaps[k])}
		if k < len(effects) {
			cs.desc = fmt.Sprintf("before effect %d/%d: %s", k, len(effects), effects[k].desc)
		} else {
			cs.desc = "after the last effect"
		}
		out = append(out, cs)
		// torn in-place writes (anything that is not a temporary file)
		if k < len(effects) && effects[k].write != nil && !strings.Contains(effects[k].path, "/temp/") {
			data := effects[k].write
			var cuts []int
			if tornAll {
				for p := 1; p < len(data); p++ {
					cuts = append(cuts, p)
				}
			} else {
				for _, p := range []int{1, len(data) / 3, len(data) / 2, len(data) - 1} {
					if p > 0 && p < len(data) {
						cuts = append(cuts, p)
					}
				}
			}
			for _, p := range cuts {
				t := map[string]string{}
				for kk, vv := range snaps[k] {
					t[kk] = vv
				}
				t[effects[k].path] = snaps[k][effects[k].path] + string(data[:p])
				out = append(out, crashState{k: k, torn: fmt.Sprintf("%d of %d bytes", p, len(data)), tree: t, model: cs.model.clone(),
					desc: fmt.Sprintf("inside effect %d (%s): %d of %d bytes written", k, effects[k].desc, p, len(data))})
			}
		}
	}
	return out, res
}

func firstLine(s string) string {
	if i := strings.IndexByte(s, '\n'); i >= 0 {
		return s[:i]
	}
	return s
}

// modelAt computes the reference model of the state in which effects 0..k-1 happened.
// A body counts as a successful execution once the record that follows it was renamed into
// place (that is what the next process can know); a body that started and was not recorded is
// unfinished; a failing body whose failure record was persisted is failed.
func (x *searcher) modelAt(pre *State, o buildOpts, res *buildResult, effects []effectRec, k int, tree map[string]string) Model {
	m := pre.M.clone()
	type ack struct {
		t  string
		at int
		ok bool
	}
	var acks []ack
	for _, t := range pre.V.targets() {
		c, started := res.StepAt[bodyName(t)]
		if !started || c > k {
			continue
		}
		if c == k {
			// the body starts exactly at this boundary: it may or may not have begun; it has not
			// touched anything yet, so it does not count as unfinished
			continue
		}
		rp := recordPath(t)
		at := -1
		for j := c; j < k; j++ {
			if strings.HasPrefix(effects[j].desc, "rename ") && strings.HasSuffix(effects[j].desc, " -> "+rp) {
				at = j
				break
			}
		}
		failing := false
		for i, f := range pre.V.Fail {
			if f && failName[i] == bodyName(t) {
				failing = true
			}
		}
		switch {
		case at < 0:
			acks = append(acks, ack{t, 1 << 30, false})
			m.T[t].Unfinished = !failing
			if failing {
				// the body failed at its first step without touching anything
				m.T[t].Unfinished = false
			}
		case failing:
			m.T[t].Failed = true
		default:
			acks = append(acks, ack{t, at, true})
		}
	}
	sort.Slice(acks, func(i, j int) bool { return acks[i].at < acks[j].at })
	for _, a := range acks {
		if !a.ok {
			continue
		}
		m.apply([]Event{{Kind: "Evaluating", Label: a.t}, {Kind: "Succeeded", Label: a.t}}, pre.V, tree)
	}
	return m
}

type crashJob struct {
	hist   []string
	target string
	always bool
	focus  *focus // not a crash job: a failure-focused history search (failing bodies are C03's too)
}

var fDieAt = flag.Int("die-at", -1, "internal: kill this process (exit 137) just before persistent effect k of the build")
var fDieRoot = flag.String("die-root", "", "internal: project directory for -die-at")
var fDieTarget = flag.String("die-target", "", "internal: target to build for -die-at")
var fDieVars = flag.String("die-vars", "", "internal: JSON of the source variables for -die-at")

// dieChild is the body of a conformance child process: one build under the scheduler that
// really dies (os.Exit) at effect k, leaving the directory to be compared with the snapshot.
func dieChild() {
	controlled = true
	var v Vars
	if err := json.Unmarshal([]byte(*fDieVars), &v); err != nil {
		vlib.Fatalf("die-vars: %v", err)
	}
	buildCtl(*fDieRoot, v, buildOpts{Target: *fDieTarget}, ctlOpts{onEffect: func(idx int, desc string) {
		if idx == *fDieAt {
			os.Exit(137)
		}
	}})
	os.Exit(0)
}

// conformance: for every crash point k of one build, a child process performs the same build
// and is really killed at k; the directory it leaves must equal the in-process snapshot k
// (after renaming run identifiers, which are random per execution).
func (x *searcher) conformance(pre *State, target string) (checked int) {
	css, _ := x.crashStates(pre, buildOpts{Target: target}, nil, false)
	vj, _ := json.Marshal(pre.V)
	root := filepath.Join(x.r.Scratch, "kill", "p")
	for _, cs := range css {
		if cs.torn != "" {
			continue
		}
		writeTree(root, pre.files())
		cmd := exec.Command(os.Args[0], "-prop", "C03", "-die-at", fmt.Sprint(cs.k), "-die-root", root, "-die-target", target, "-die-vars", string(vj))
		out, err := cmd.CombinedOutput()
		code := 0
		if ee, ok := err.(*exec.ExitError); ok {
			code = ee.ExitCode()
		}
		if code != 137 && !(code == 0 && cs.desc == "after the last effect") {
			vlib.Fatalf("conformance child for effect %d exited with %d: %s", cs.k, code, out)
		}
		got := readTree(root)
		if d := diffTrees(canonArt(artOf(cs.tree)), canonArt(artOf(got))); d != "" {
			x.r.Violation("C03:simulated-crash-state-differs-from-real-kill", fmt.Sprintf("crash point %d (%s) of build %s: in-process snapshot and directory left by a killed process differ: %s", cs.k, cs.desc, target, d),
				map[string]any{"history": pre.Hist, "target": target, "k": cs.k, "diff": d})
		}
		checked++
	}
	return checked
}

func crashMain(r *vlib.Run, x *searcher) {
	controlled = true
	byName := map[string]Op{}
	for _, o := range append(edits(), builds()...) {
		byName[o.Name] = o
	}
	pres := [][]string{
		{},
		{"build:top"},
		{"build:top", "edit:src/a.txt"},
		{"build:top", "edit:pkg/b.txt"},
		{"build:top", "const:K"},
		{"build:top", "delete:gen/g.txt"},
		{"build:top", "rename:dir/y.txt<->z.txt"},
		{"build:top", "edit:src/a.txt", "build:gen"},
		{"fail:mid", "build:top", "fail:mid"},
		{"build:top", "fail:gen", "edit:src/a.txt", "build:top", "fail:gen"},
		{"build:top", "fail:leaf", "default:leaf.d"},
	}
	if r.Thorough() {
		for _, e := range []string{"edit:dir/x.txt", "addremove:dir/w.txt", "default:leaf.d", "code:helper", "global:G", "closure:V", "flag:mode", "edge:top->leaf", "target:pkg:other", "delete:out/mid", "fail:gen", "fail:mid"} {
			pres = append(pres, []string{"build:top", e})
		}
		pres = append(pres, []string{"build:top", "edit:src/a.txt", "edit:pkg/b.txt"}, []string{"build:top", "delete:gen/g.txt", "edit:pkg/b.txt"},
			[]string{"build:top", "gc:full", "edit:src/a.txt"}, []string{"build:mid", "edit:src/a.txt"}, []string{"build:leaf"})
	}
	var jobs []crashJob
	for _, p := range pres {
		for _, t := range []string{tTop, tMid, tGen} {
			jobs = append(jobs, crashJob{hist: p, target: t})
		}
	}
	// forced builds: a target without dependencies or sources has nothing else that could betray
	// an unfinished execution
	for _, p := range [][]string{{"build:top", "build:other"}, {"build:top"}} {
		jobs = append(jobs, crashJob{hist: p, target: tOther, always: true}, crashJob{hist: p, target: tTop, always: true})
	}
	// failing bodies followed by repairs through partial builds
	jobs = append(jobs, crashJob{focus: &focus{[]string{"edit:dir/x.txt", "default:leaf.d", "session:build:top(mid's body fails; repaired; build:top)", "session:build:top(leaf's body fails; repaired; build:top)", "build:top"}, 4}},
		crashJob{focus: &focus{[]string{"fail:mid", "edit:dir/x.txt", "build:mid", "build:top"}, 7}},
		crashJob{focus: &focus{[]string{"fail:gen", "edit:src/a.txt", "build:gen", "build:mid", "build:top"}, 6}})
	recOps := []Op{byName["build:top"], byName["build:mid"], byName["build:gen"], byName["build:leaf"], byName["build:other"], byName["dry:top"], byName["edit:src/a.txt"], byName["delete:gen/g.txt"]}
	recDepth := 2
	if r.Thorough() {
		recOps = append(recOps, byName["const:K"], byName["fail:mid"], byName["gc:full"])
		recDepth = 3
	}
	r.Distribute(len(jobs), func(ji int) {
		j := jobs[ji]
		if j.focus != nil {
			x.explore(j.focus.depth, alphabetOf(j.focus.ops))
			r.Add("failure_history_searches", 1)
			return
		}
		// reach the pre-state
		s := &State{V: initialVars(), Art: map[string]string{}, M: newModel()}
		for _, name := range j.hist {
			ns := x.step(s, byName[name])
			if len(ns) != 1 {
				vlib.Fatalf("pre-state history %v: op %s not applicable", j.hist, name)
			}
			s = ns[0]
		}
		if ji == 4 || (r.Thorough() && ji%3 == 1) {
			r.Add("kill_conformance_points", int64(x.conformance(s, j.target)))
		}
		o := buildOpts{Target: j.target, Always: j.always}
		seen := map[string]bool{}
		// crash states along every explored linearisation of the effects
		// quick: the default linearisation only; thorough: every schedule with <=1 preemption (capped)
		bound, maxExecs := 0, int64(1)
		if r.Thorough() {
			bound, maxExecs = 1, 150
		}
		ex := &vsched.Explorer{Bound: bound, Prune: true, MaxExecs: maxExecs}
		var all []crashState
		ex.Run = func(prefix []int) *vsched.Result {
			css, res := x.crashStates(s, o, prefix, r.Thorough())
			for _, cs := range css {
				k := hashFiles(canonArt(artOf(cs.tree))) + cs.model.String()
				if !seen[k] {
					seen[k] = true
					all = append(all, cs)
				}
			}
			r.Add("crash_points", int64(len(css)))
			if res.Sched == nil {
				return &vsched.Result{}
			}
			return res.Sched
		}
		ex.Check = func(*vsched.Result) bool { return !r.Expired() }
		ex.Explore()
		r.Add("crash_builds", ex.Execs)
		r.Add("distinct_crash_states", int64(len(all)))
		if ex.Capped != "" && r.Thorough() {
			r.Cap("linearisation exploration capped at " + ex.Capped + " per crashed build")
		}
		// recovery: BFS from every crash state
		for _, cs := range all {
			if r.Expired() {
				r.Cap("wall-clock budget during recovery search")
				return
			}
			start := &State{V: s.V, Art: artOf(cs.tree), M: cs.model, Crashed: true,
				Hist: append(append([]string{}, j.hist...), fmt.Sprintf("CRASH during build of %s%s %s", j.target, map[bool]string{true: " (always)", false: ""}[j.always], cs.desc))}
			// the state must load, with and without the index
			for _, pi := range []bool{false, true} {
				res := x.runBuildFiles(start.files(), start.V, buildOpts{Target: tTop, Dry: true, PreferIndex: pi})
				if res.LoadErr != nil {
					x.violation("crash-state-does-not-load", fmt.Sprintf("Load (PreferIndex=%v) fails after a crash: %s", pi, es(res.LoadErr)), start, start.Hist, res)
				}
			}
			frontier := []*State{start}
			seenR := map[string]bool{start.key(): true}
			for d := 1; d <= recDepth; d++ {
				var next []*State
				for _, st := range frontier {
					for _, op := range recOps {
						for _, n := range x.step(st, op) {
							r.Add("recovery_transitions", 1)
							if k := n.key(); !seenR[k] {
								seenR[k] = true
								next = append(next, n)
							}
						}
					}
				}
				frontier = next
			}
			r.Add("recovery_states", int64(len(seenR)))
		}
		if ji%7 == 0 && len(all) > 0 {
			r.Sample(map[string]any{"pre_history": j.hist, "crash_build": j.target, "distinct_crash_states": len(all), "example_crash_point": all[len(all)/2].desc})
		}
	})
	r.Assumptions = []string{
		"crash model = process death: effects that happened persist, nothing else does (power-loss reordering of un-synced data is out of scope, as in the property)",
		"a body is a successful execution once the record written after it has been renamed into place; a body that started without that is unfinished and must be re-executed",
		"the in-process crash snapshots are validated against directories left by really killed child processes (coverage.traces_validated_against_impl crash points)",
		"crash states are the prefixes of each explored linearisation of the persistent effects (quick: the default schedule; thorough: all schedules with <=1 preemption), plus torn prefixes of in-place writes",
	}
	r.Finish(vlib.Coverage{
		Evaluations:        r.Get("crash_points") + r.Get("recovery_transitions"),
		DistinctNontrivial: r.Get("distinct_crash_states"),
		Rule:               "for each pre-state history x crashed build target: every crash point between two persistent effects (and torn in-place writes), de-duplicated on (tree bytes, model); from each, breadth-first recovery histories of the stated depth; non-trivial = distinct crash states",
		States:             r.Get("distinct_crash_states") + r.Get("recovery_states"),
		Transitions:        r.Get("recovery_transitions") + r.Get("crash_points"),
		TracesValidated:    r.Get("kill_conformance_points"),
		Exhaustive:         true,
		Outcomes:           r.NumOutcomes("executed_sets"),
		Bounds:             map[string]any{"pre_states": len(pres), "crash_targets": 3, "recovery_depth": recDepth, "recovery_ops": len(recOps), "linearisation_preemption_bound": map[bool]int{false: 0, true: 1}[r.Thorough()]},
	})
}
