package main

import "github.com/pgavlin/dawn/internal/verif/vlib"

func crashMain(r *vlib.Run, x *searcher) { vlib.Fatalf("C03 crash mode not built yet") }
