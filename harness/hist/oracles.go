package main

import (
	"encoding/json"
	"encoding/hex"
	"crypto/sha256"
	"fmt"
	"sort"
	"strings"
)

// checkProtocol (C18): per label  ε | UpToDate | Evaluating Print* (Succeeded|Failed) | Failed
// (lone Failed only for a missing or cyclic dependency); Prints only between Evaluating and
// completion; exactly one RunDone, last, carrying Run's error; Evaluating <=> body ran.
func (x *searcher) checkProtocol(s, n *State, o buildOpts, res *buildResult) {
	if x.prop != "C18" || o.GC {
		return
	}
	bad := func(sig, what string) { x.violation("protocol:"+sig, what, s, n.Hist, res) }
	perLabel := map[string][]Event{}
	var order []string
	runDone := 0
	for i, e := range res.Events {
		switch e.Kind {
		case "RunDone":
			runDone++
			// RunDone comes after the requested target's last event (other targets may still be
			// finishing when a cycle error cuts the build short)
			for _, later := range res.Events[i+1:] {
				if later.Label == o.Target {
					bad("run-done-before-requested-target-finished", fmt.Sprintf("event %s %s after RunDone", later.Kind, later.Label))
				}
			}
			if e.Err != es(res.RunErr) {
				bad("run-done-wrong-error", fmt.Sprintf("RunDone carried %q, Run returned %q", e.Err, es(res.RunErr)))
			}
		case "UpToDate", "Evaluating", "Succeeded", "Failed", "Print":
			if _, ok := perLabel[e.Label]; !ok {
				order = append(order, e.Label)
			}
			perLabel[e.Label] = append(perLabel[e.Label], e)
		}
	}
	if runDone != 1 {
		bad("run-done-count", fmt.Sprintf("%d RunDone events", runDone))
	}
	// the requested target is always visited: it may stay silent only if a dependency failed
	exists := false
	for _, t := range s.V.targets() {
		exists = exists || t == o.Target
	}
	if len(perLabel[o.Target]) == 0 && o.Then == "" && exists { // (a target that does not exist is not visited)
		anyFailed := false
		for _, e := range res.Events {
			anyFailed = anyFailed || e.Kind == "Failed"
		}
		if !anyFailed {
			bad("requested-target-silent", fmt.Sprintf("%s produced no event at all and no target reported a failure (Run returned %q)", o.Target, es(res.RunErr)))
		}
	}
	for _, l := range order {
		var kinds []string
		for _, e := range perLabel[l] {
			kinds = append(kinds, e.Kind)
		}
		seq := strings.Join(kinds, " ")
		// collapse Prints
		core := strings.Join(strings.Fields(strings.ReplaceAll(seq, "Print", "")), " ")
		ok := false
		switch core {
		case "UpToDate", "Evaluating Succeeded", "Evaluating Failed":
			ok = true
		case "Failed":
			e := perLabel[l][len(perLabel[l])-1]
			ok = strings.Contains(e.Err, "missing dependency") || strings.Contains(e.Err, "cyclic dependency")
		}
		if !ok {
			bad("label-sequence", fmt.Sprintf("%s produced the event sequence [%s]", l, seq))
			continue
		}
		// prints only between Evaluating and completion
		if strings.Contains(seq, "Print") {
			first, last := kinds[0], kinds[len(kinds)-1]
			if first != "Evaluating" || (last != "Succeeded" && last != "Failed") {
				bad("print-outside-evaluation", fmt.Sprintf("%s: [%s]", l, seq))
			}
		}
	}
	// requested target's last event precedes RunDone: implied by RunDone being last.
	// Evaluating <=> body ran (or would, in a dry run: checked against the twin real build in checkDry)
	if !o.Dry {
		ev := evaluatingSet(res.Events)
		for _, t := range s.V.targets() {
			if ev[t] != res.Executed[t] && !recordFault(res.Events, t) {
				bad("evaluating-vs-body", fmt.Sprintf("%s: evaluating event=%v, body ran=%v", t, ev[t], res.Executed[t]))
			}
		}
	}
	x.r.Outcome("executed_sets", setString(res.Executed)+"|"+es(res.RunErr))
}

// downstream returns the targets that (transitively) depend on any target in failed.
func downstream(v Vars, failed map[string]bool) map[string]bool {
	out := map[string]bool{}
	changed := true
	for changed {
		changed = false
		for _, t := range v.targets() {
			if out[t] {
				continue
			}
			for _, d := range v.deps(t) {
				if failed[d] || out[d] {
					out[t] = true
					changed = true
				}
			}
		}
	}
	return out
}

func functionOnly(m map[string]bool) map[string]bool {
	o := map[string]bool{}
	for k, v := range m {
		if v && !strings.HasPrefix(k, "source:") {
			o[k] = true
		}
	}
	return o
}

// checkDry (C13): no body, no change after Load, predicts the real build, changes nothing for
// the next real build.
func (x *searcher) checkDry(s, n *State, o buildOpts, res *buildResult) {
	if x.prop != "C13" && x.prop != "C18" {
		return
	}
	bad := func(sig, what string) {
		if x.prop == "C13" {
			x.violation("dry-run:"+sig, what, s, n.Hist, res)
		}
		// (not with an injected record-write fault: which targets it hits in the real twin is a matter of timing)
		if x.prop == "C18" && !s.V.Sabotage && (sig == "prediction-differs" || sig == "under-prediction" || sig == "over-prediction") {
			// 'evaluating' is reported exactly when the body would run
			x.violation("protocol:dry-run-evaluating:"+sig, what, s, n.Hist, res)
		}
	}
	if len(res.Steps) > 0 || len(res.Emits) > 0 {
		bad("body-executed", fmt.Sprintf("dry run executed bodies %v", res.Steps))
	}
	if d := diffTrees(res.AfterLd, res.After); d != "" {
		bad("state-changed", "the dry Run changed the project directory after Load: "+d)
	}
	// twin: the real build of the same state
	ro := o
	ro.Dry = false
	real := x.runBuild(s, ro)
	if real.LoadErr != nil {
		return
	}
	dry, rl := evaluatingSet(res.Events), evaluatingSet(real.Events)
	x.r.Outcome("executed_sets", "dry:"+setString(dry)+"|real:"+setString(rl)+"|"+es(real.RunErr))
	if real.RunErr == nil {
		if setString(dry) != setString(rl) {
			bad("prediction-differs", fmt.Sprintf("dry run reported {%s}, the real build of the same tree attempted {%s}", setString(dry), setString(rl)))
		}
	} else {
		failed := map[string]bool{}
		for _, e := range real.Events {
			if e.Kind == "Failed" {
				failed[e.Label] = true
			}
		}
		down := downstream(s.V, failed)
		if failed[tGen] || down[tGen] {
			down["source://gen:g.txt"] = true // the generated source is downstream of its generator
		}
		for t := range rl {
			if !dry[t] {
				bad("under-prediction", fmt.Sprintf("the real build attempted %s, the dry run did not report it", t))
			}
		}
		for t := range dry {
			if !rl[t] && !down[t] {
				bad("over-prediction", fmt.Sprintf("the dry run reported %s, which the (failing) real build did not attempt and which is not downstream of the failure", t))
			}
		}
	}
	if x.prop != "C13" {
		return
	}
	// ... also on one and the same Project value (dry run, Reload, Run with nil options), as
	// watch mode and library users drive it
	if x.prop == "C13" {
		for _, reload := range []bool{true, false} {
			// watch mode reloads between the two; the REPL (run(t, dry_run=True); run(t)) does not
			var same *buildResult
			x.withRoot(func(root string) {
				writeTree(root, s.files())
				same = dryThenRealSameProject(root, s.V, o.Target, reload)
			})
			x.nBuilds.Add(1)
			if same.LoadErr == nil {
				if setString(same.Executed) != setString(real.Executed) || es(same.RunErr) != es(real.RunErr) {
					bad("changes-next-build-same-project", fmt.Sprintf("on one Project value (reloaded in between: %v), the build after a dry run executed {%s}; a real build of the same tree executes {%s}", reload, setString(same.Executed), setString(real.Executed)))
				} else if reload == false {
					// ... and leaves the same records behind (what the next process sees)
					if d := diffTrees(canonArt(artOf(real.After)), canonArt(artOf(same.After))); d != "" {
						bad("changes-next-build-state-same-project", "dry run then real build on one Project leaves other build state than the real build alone: "+d)
					}
				}
			}
		}
	}
	// a dry run never changes what the next real build does: Build after Dry == Build directly
	var after *buildResult
	x.withRoot(func(root string) {
		writeTree(root, mergeFiles(s.V.render(), artOf(res.After)))
		after = build(root, s.V, ro)
	})
	x.nBuilds.Add(1)
	if after.LoadErr == nil {
		if setString(evaluatingSet(after.Events)) != setString(rl) || es(after.RunErr) != es(real.RunErr) {
			bad("changes-next-build", fmt.Sprintf("real build directly attempted {%s}, after the dry run {%s}", setString(rl), setString(evaluatingSet(after.Events))))
		} else if d := diffTrees(canonArt(artOf(real.After)), canonArt(artOf(after.After))); d != "" {
			bad("changes-next-build-state", "state after build differs with/without a preceding dry run: "+d)
		}
	}
}

func mergeFiles(a, b map[string]string) map[string]string {
	o := map[string]string{}
	for k, v := range a {
		o[k] = v
	}
	for k, v := range b {
		o[k] = v
	}
	return o
}

func diffTrees(a, b map[string]string) string {
	var d []string
	for k, v := range a {
		if w, ok := b[k]; !ok {
			d = append(d, "removed "+k)
		} else if w != v {
			d = append(d, "changed "+k)
		}
	}
	for k := range b {
		if _, ok := a[k]; !ok {
			d = append(d, "added "+k)
		}
	}
	sort.Strings(d)
	if len(d) > 6 {
		d = append(d[:6], "…")
	}
	return strings.Join(d, ", ")
}

// recordPath returns the record file of a label string as dawn lays it out.
func recordPath(l string) string {
	kind := "target"
	if i := strings.Index(l, "://"); i >= 0 && !strings.HasPrefix(l, "//") {
		kind, l = l[:i], l[i+1:]
	}
	pkg, name := l, ""
	if i := strings.IndexByte(l[2:], ':'); i >= 0 { // a package has no colon; a name may
		pkg, name = l[:2+i], l[3+i:]
	}
	if name == "" {
		name = "BUILD.dawn"
	}
	esc := strings.ReplaceAll(pkg[2:]+"/"+name, "/", "%2F")
	return ".dawn/build/" + kind + "s/" + esc
}

// liveLabels returns the labels that exist in the loaded project: for a full load what the
// BUILD files declare, for an index-preferred load what index.json lists.
func liveLabels(v Vars, o buildOpts, before map[string]string) []string {
	if o.PreferIndex {
		if idx, ok := before[".dawn/build/index.json"]; ok {
			var out []string
			for _, line := range strings.Split(idx, "\n") {
				line = strings.TrimSpace(line)
				if strings.HasPrefix(line, "\"label\":") {
					l := strings.Trim(strings.TrimSuffix(strings.TrimSpace(strings.TrimPrefix(line, "\"label\":")), ","), "\"")
					out = append(out, l)
				}
			}
			// a label whose name contains a colon cannot be read back from the index: the index
			// is then unusable and the load falls back to a full load
			usable := len(out) > 0
			for _, l := range out {
				body := l
				if i := strings.Index(l, "//"); i >= 0 {
					body = l[i+2:]
				}
				if strings.Count(body, ":") > 1 {
					usable = false
				}
			}
			if usable {
				return out
			}
		}
	}
	out := append([]string{}, v.targets()...)
	out = append(out, "source://src:a.txt", "source://gen:g.txt", "source://:dir", "source://pkg:b.txt",
		"source://"+deepDir+"/x:config.h", "source://"+deepDir+"/y:config.h")
	if v.XSrc {
		out = append(out, "source://pkg:c.txt")
	}
	return out
}

// checkGC (C14)
func (x *searcher) checkGC(s, n *State, o buildOpts, res *buildResult) {
	n.GCd = true
	// the model forgets targets that do not exist (their records are gone)
	if !s.V.Other {
		n.M.T[tOther] = &TModel{SawLatest: map[string]bool{}}
	}
	if !s.V.OtherAll {
		n.M.T[tOtherAll] = &TModel{SawLatest: map[string]bool{}}
	}
	if x.prop != "C14" {
		return
	}
	bad := func(sig, what string) { x.violation("gc:"+sig, what, s, n.Hist, res) }
	if res.RunErr != nil {
		bad("error", "GC returned "+es(res.RunErr))
		return
	}
	before := res.AfterLd // the state GC sees: after the Load that precedes it
	live := map[string]bool{}
	for _, l := range liveLabels(s.V, o, s.files()) {
		live[recordPath(l)] = true
	}
	// (1) records of live labels are byte-identical
	for p := range live {
		b, okb := before[p]
		a, oka := res.After[p]
		if okb && (!oka || a != b) {
			bad("live-record-changed", fmt.Sprintf("record %s of a live label was %s by GC", p, map[bool]string{true: "changed", false: "removed"}[oka]))
		}
	}
	// (2) afterwards .dawn/build holds exactly index.json, an empty temp/ and live records
	for p := range res.After {
		if !strings.HasPrefix(p, ".dawn/build/") {
			continue
		}
		switch {
		case p == ".dawn/build/index.json", p == ".dawn/build/temp/":
		case strings.HasSuffix(p, "/"): // an empty directory is not a record
		case live[p]:
		default:
			bad("garbage-survives", fmt.Sprintf("%s survives GC though it belongs to no live label", p))
		}
	}
	if _, ok := res.After[".dawn/build/index.json"]; !ok {
		bad("index-removed", "index.json removed by GC")
	}
	// (3) nothing outside .dawn/build changes
	for p, c := range before {
		if !strings.HasPrefix(p, ".dawn/build/") {
			if a, ok := res.After[p]; !ok || a != c {
				bad("outside-state-changed", "GC changed "+p)
			}
		}
	}
	for p := range res.After {
		if _, ok := before[p]; !ok && !strings.HasPrefix(p, ".dawn/build/") {
			bad("outside-state-changed", "GC created "+p)
		}
	}
	// (4) twin continuation: every build from the post-GC state behaves as from the pre-GC state.
	// Not compared when the index-preferred load saw a stale label set (a label re-created after
	// it was dropped from the index is outside the property).
	twins := []string{tTop, tLeaf, tMid}
	if s.V.Other {
		twins = append(twins, tOther)
	}
	tv := s.V
	tv.Broken = false // build files that do not load are repaired before the builds that follow
	for _, t := range twins {
		bo := buildOpts{Target: t}
		with := x.runBuildFiles(mergeFiles(tv.render(), artOf(res.After)), tv, bo)
		without := x.runBuildFiles(mergeFiles(tv.render(), artOf(before)), tv, bo)
		if with.LoadErr != nil || without.LoadErr != nil {
			if (with.LoadErr == nil) != (without.LoadErr == nil) {
				bad("changes-next-build", "Load after GC: "+es(with.LoadErr)+" vs without: "+es(without.LoadErr))
			}
			continue
		}
		x.r.Outcome("executed_sets", "gc-twin:"+setString(with.Executed))
		if setString(with.Executed) != setString(without.Executed) || es(with.RunErr) != es(without.RunErr) {
			if o.PreferIndex && staleIndex(s) && (s.LoadV == nil || labelSet(*s.LoadV) != labelSet(s.V)) {
				// the build files were edited since the project was last loaded in full: the index
				// legitimately lags behind them
				continue
			}
			bad("changes-next-build", fmt.Sprintf("build of %s executes {%s} after GC but {%s} without it", t, setString(with.Executed), setString(without.Executed)))
		}
	}
}

// staleIndex: index.json does not list exactly the labels the BUILD files declare now.
func staleIndex(s *State) bool {
	idx := liveLabels(s.V, buildOpts{PreferIndex: true}, s.files())
	full := liveLabels(s.V, buildOpts{}, nil)
	a, b := map[string]bool{}, map[string]bool{}
	for _, l := range idx {
		a[l] = true
	}
	for _, l := range full {
		b[l] = true
	}
	for l := range b {
		if !a[l] && !strings.HasPrefix(l, "source:") {
			return true
		}
	}
	return false
}

func (x *searcher) runBuildFiles(files map[string]string, v Vars, o buildOpts) *buildResult {
	var res *buildResult
	x.withRoot(func(root string) {
		writeTree(root, files)
		res = build(root, v, o)
	})
	x.nBuilds.Add(1)
	return res
}

// recordFault: the target failed because build state could not be written (an injected I/O
// fault, e.g. the temp directory was removed by another body), not because of its body.
func recordFault(ev []Event, t string) bool {
	for _, e := range ev {
		if e.Kind == "Failed" && e.Label == t && strings.Contains(e.Err, ".dawn/build") {
			return true
		}
	}
	return false
}

// checkOnce (C04 at the level of a whole project build): every body starts at most once, every
// label is evaluated and completed at most once, and a target is reported evaluating only
// after each of its dependencies has completed.
func (x *searcher) checkOnce(s, n *State, o buildOpts, res *buildResult) {
	bad := func(sig, what string) { x.violation("build:"+sig, what, s, n.Hist, res) }
	runs := map[string]int{}
	for _, st := range res.Steps {
		runs[st]++
	}
	for b, c := range runs {
		if c > 1 && o.Then == "" {
			bad("body-ran-twice", fmt.Sprintf("the body of %s ran %d times in one build", b, c))
		}
	}
	evaluating, done := map[string]int{}, map[string]int{}
	for _, e := range res.Events {
		switch e.Kind {
		case "Evaluating":
			evaluating[e.Label]++
			if evaluating[e.Label] > 1 && o.Then == "" {
				bad("evaluated-twice", fmt.Sprintf("%s was reported evaluating %d times in one build", e.Label, evaluating[e.Label]))
			}
			for _, d := range s.V.deps(e.Label) {
				if done[d] == 0 && o.Then == "" {
					bad("evaluating-before-dependency-finished", fmt.Sprintf("%s is evaluating although its dependency %s has not completed", e.Label, d))
				}
			}
		case "UpToDate", "Succeeded", "Failed":
			done[e.Label]++
		}
	}
	// what a target is handed for a dependency is the dependency's actual outcome: the stamp
	// recorded for the generated source is the sum of the file as its generator left it (a source
	// that sums its file before its generator ran hands over, and records, the previous one)
	if res.RunErr == nil && o.Then == "" && evaluating["source://gen:g.txt"] > 0 {
		var rec struct {
			Stamp string `json:"stamp"`
		}
		if txt, ok := res.After[".dawn/build/sources/gen%2Fg.txt"]; ok && json.Unmarshal([]byte(txt), &rec) == nil {
			sum := sha256.Sum256([]byte(res.After["gen/g.txt"]))
			if want := hex.EncodeToString(sum[:]); rec.Stamp != want {
				bad("outcome-of-generated-source-is-not-its-file", fmt.Sprintf("the generated source gen/g.txt was evaluated in this build and is recorded with stamp %.12s..., the file its generator left has %.12s...", rec.Stamp, want))
			}
		}
	}
	x.r.Outcome("executed_sets", "once:"+setString(res.Executed))
}
