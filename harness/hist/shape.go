package main

import (
	"crypto/sha256"
	"encoding/hex"
	"fmt"
	"path"
	"sort"
	"strings"
)

// symlinkPrefix marks a file-map entry that is a symbolic link to the rest of the string.
const symlinkPrefix = "\x00SYMLINK:"

// Vars are the source-level variables of the project shape; source files are rendered
// from them, so an edit is a change of one variable and "revert" reproduces the same text.
type Vars struct {
	A         int  // src/a.txt content version
	B         int  // pkg/b.txt content version
	X         int  // dir/x.txt content version
	YName     int  // 0: dir/y.txt exists, 1: the same content is called dir/z.txt
	W         bool // dir/w.txt present
	K         int  // lib.dawn constant: index into kvals
	KF        bool // the constant is written as a float of the same number (1 -> 1.0: equal under ==, prints differently)
	Ord       bool // the entries of the global dict referenced by mid are written in the other order (equal under ==, iterates differently)
	D         int  // default argument of leaf's function
	H         int  // helper body version
	G         int  // element of the global list referenced by mid
	V         int  // closure variable referenced by mid
	C1        bool // comment + blank line in BUILD.dawn
	C2        bool // comment + docstring in lib.dawn
	C3        bool // comment in pkg/BUILD.dawn
	N         int  // misc/n.txt (outside every closure)
	Edge      bool // top depends on //pkg:leaf
	Other     bool // target //pkg:other exists
	FlagV     int  // value of the flag read by leaf's package (passed as --pkg.mode=…)
	Link      int  // 0: no link; 1: dir/link -> ../misc/n.txt; 2: dir/link -> ../misc/m.txt (a symbolic link inside the source directory); 3: dir/link -> nothing (dangling)
	Late      int  // value of a global that gen's function refers to but that is assigned below the target() call
	AlwaysGen bool // gen is declared always=True
	Sabotage  bool // leaf's body removes .dawn/build/temp, so that recording its result fails
	Colon     bool // target //pkg:co:lon exists
	XSrc      bool // leaf lists a second source, pkg/c.txt (the body sees the list through t.sources)
	Broken    bool // pkg/BUILD.dawn declares leaf a second time right after the first (the load fails half-way through the file)
	OtherAll  bool // target //pkg:other_all exists (its record name has the record name of //pkg:other as a proper prefix)
	Diamond   bool // leaf also depends on gen, which mid reaches through the generated file (a shared dependency)
	Missing   bool // top also depends on a target that does not exist
	Cycle     bool // leaf depends on top (a dependency cycle when the edge top->leaf exists)
	Chatty    bool // bodies print lines (and a trailing partial line) through the thread's stdout
	Fail      [3]bool
}

var kvals = []int{1, 300, 76800} // 1-byte, 2-byte and 4-byte pickle classes

func initialVars() Vars {
	return Vars{Edge: true, Other: true}
}

const (
	tGen   = "//:gen"
	tMid   = "//:mid"
	tTop   = "//:top"
	tLeaf  = "//pkg:leaf"
	tOther = "//pkg:other"
	tOtherAll = "//pkg:other_all"
	tDocs     = "//:docs" // sources = glob of a pattern that only names inside .dawn/build could match: no sources
	tColon = "//pkg:co:lon" // a target whose name contains a colon (legal to declare, awkward to spell as a label)
)

var failName = []string{"gen", "mid", "leaf"}

// render returns the source files of the project (everything except artefacts).
// deepDir: two source files with the same base name in sibling directories below a long path;
// the escaped labels of both are longer than 200 bytes, shorter than a file name may be (255),
// and differ only near their end (record names must stay distinct however they are shortened)
var deepDir = "deep/" + strings.Repeat("p", 185)

// noDeep leaves the two deep sources out (the scheduler pass of C18 explores interleavings, and
// two more source targets multiply them without adding anything to the protocol).
var noDeep bool

func (v Vars) render() map[string]string {
	f := map[string]string{}
	if !noDeep {
		f[deepDir+"/x/config.h"] = "cx\n"
		f[deepDir+"/y/config.h"] = "cy\n"
	}
	f["dawn.toml"] = "name = \"p\"\n"
	f["src/a.txt"] = fmt.Sprintf("a%d\n", v.A)
	f["pkg/b.txt"] = fmt.Sprintf("b%d\n", v.B)
	f["pkg/c.txt"] = "c\n"
	f["dir/x.txt"] = fmt.Sprintf("x%d\n", v.X)
	if v.YName == 0 {
		f["dir/y.txt"] = "why\n"
	} else {
		f["dir/z.txt"] = "why\n"
	}
	if v.W {
		f["dir/w.txt"] = "w\n"
	}
	f["misc/n.txt"] = fmt.Sprintf("n%d\n", v.N)
	f["misc/m.txt"] = "m\n"
	f["misc/gen/g.txt"] = "decoy\n" // named like a declared output, relative to misc/
	f["misc/out/mid"] = "decoy\n"
	f["misc/out/gen.side"] = "decoy\n"
	switch v.Link {
	case 1:
		f["dir/link"] = symlinkPrefix + "../misc/n.txt"
	case 2:
		f["dir/link"] = symlinkPrefix + "../misc/m.txt"
	case 3:
		f["dir/link"] = symlinkPrefix + "../misc/nothing-here" // a dangling link
	}

	var lib strings.Builder
	if v.C2 {
		lib.WriteString("# a comment\n\n")
	}
	if v.KF {
		fmt.Fprintf(&lib, "K = %d.0\n", kvals[v.K])
	} else {
		fmt.Fprintf(&lib, "K = %d\n", kvals[v.K])
	}
	// a self-referential function below the comment toggle (its position moves with the comment)
	lib.WriteString("def depth(n):\n    return 0 if n <= 0 else 1 + depth(n - 1)\n")
	lib.WriteString("def helper(x):\n")
	if v.C2 {
		lib.WriteString("    \"\"\"helper adds K.\"\"\"\n")
	}
	if v.H == 0 {
		lib.WriteString("    return x + K + depth(2) - 2\n")
	} else {
		lib.WriteString("    return K + x + 0 + depth(2) - 2\n")
	}
	lib.WriteString("def make(n):\n    def inner(z):\n        return z + n\n    return inner\n")
	f["lib.dawn"] = lib.String()

	var b strings.Builder
	// the library's helper is loaded under another name and wrapped by a local function of the
	// SAME name: two different functions called "helper" are reachable from gen
	b.WriteString("load(\"//:lib.dawn\", \"make\", lib_helper=\"helper\")\n")
	b.WriteString("def helper(x):\n    return lib_helper(x)\n")
	if v.C1 {
		b.WriteString("\n# a comment and a blank line\n\n")
	}
	fmt.Fprintf(&b, "G = [1, %d]\n", 2+v.G)
	if v.Ord {
		b.WriteString("ORD = {\"b\": 2, \"a\": 1}\n")
	} else {
		b.WriteString("ORD = {\"a\": 1, \"b\": 2}\n")
	}
	fmt.Fprintf(&b, "closure = make(%d)\n", 7+v.V)
	b.WriteString(`def _gen(t):
    step("gen")
    emit("gen/g.txt", "g:" + slurp("src/a.txt") + ":" + str(helper(0)) + ":" + str(LATE))
    emit("out/gen.side", "side")
target(name="gen", function=_gen, sources=["src/a.txt", "__DEEP__/x/config.h", "__DEEP__/y/config.h"], generates=["out/gen.side", "gen/g.txt"]__ALWAYS__)
def _mid(t):
    step("mid")
    emit("out/mid", "mid:" + slurp("gen/g.txt") + ":" + listing("dir") + ":" + str(G[1]) + ":" + str(closure(1)) + ":" + "".join(ORD.keys()))
target(name="mid", function=_mid, sources=["gen/g.txt", "dir"])
def _top(t):
    step("top")
`)
	if v.Chatty {
		b.WriteString("    say(\"top line 1\\ntop line 2\\npartial\")\n")
	}
	extra := ""
	if v.Missing {
		extra = ", \"//pkg:leef\"" // a near-miss of //pkg:leaf (the error then carries a "did you mean" hint)
	}
	if v.Edge {
		b.WriteString("    emit(\"out/top\", \"top:\" + slurp(\"out/mid\") + \":\" + slurp(\"out/leaf\"))\n")
		if v.Diamond {
			// the same dependency spelled a second, non-canonical way
			extra += ", \"//pkg/:leaf\""
		}
		b.WriteString("target(name=\"top\", function=_top, deps=[\":mid\", \"//pkg:leaf\"" + extra + "])\n")
	} else {
		b.WriteString("    emit(\"out/top\", \"top:\" + slurp(\"out/mid\"))\n")
		b.WriteString("target(name=\"top\", function=_top, deps=[\":mid\"" + extra + "])\n")
	}
	// a recursive glob that nothing in the project matches (only record files, which contain
	// "%2F", could): the build-state directory is never part of the project
	b.WriteString("def _docs(t):\n    step(\"docs\")\n    emit(\"out/docs\", \"docs:\" + str(len(t.sources)))\ntarget(name=\"docs\", function=_docs, sources=glob([\"**%2F**\"]))\n")
	fmt.Fprintf(&b, "LATE = %d\n", 7+v.Late) // assigned after the targets that refer to it were registered
	alw := ""
	if v.AlwaysGen {
		alw = ", always=True"
	}
	build := strings.ReplaceAll(b.String(), "__ALWAYS__", alw)
	if noDeep {
		build = strings.ReplaceAll(build, ", \"__DEEP__/x/config.h\", \"__DEEP__/y/config.h\"", "")
	}
	f["BUILD.dawn"] = strings.ReplaceAll(build, "__DEEP__", deepDir)

	var p strings.Builder
	if v.C3 {
		p.WriteString("# pkg comment\n")
	}
	p.WriteString("mode = parse_flag(\"mode\", default=\"m0\")\n")
	fmt.Fprintf(&p, "def _leaf(t, d=%d):\n    step(\"leaf\")\n    emit(\"out/leaf\", \"leaf:\" + slurp(\"pkg/b.txt\") + \":\" + str(d) + \":\" + mode + \":\" + str(len(t.sources)))\n", 5+v.D)
	if v.Sabotage {
		p.WriteString("    sabotage()\n")
	}
	if v.Chatty {
		p.WriteString("    say(\"leaf says\\n\")\n    say(\"hello\")\n    say(\" world\\n\")\n")
	}
	switch {
	case v.Cycle:
		p.WriteString("target(name=\"leaf\", function=_leaf, sources=" + leafSources(v) + ", deps=[\"//:top\"])\n")
	case v.Diamond:
		p.WriteString("target(name=\"leaf\", function=_leaf, sources=" + leafSources(v) + ", deps=[\"//:gen\"])\n")
	default:
		p.WriteString("target(name=\"leaf\", function=_leaf, sources=" + leafSources(v) + ")\n")
	}
	if v.Broken {
		p.WriteString("target(name=\"leaf\", function=_leaf)\n") // duplicate target: an error while the module runs
	}
	if v.Other {
		p.WriteString("def _other(t):\n    step(\"other\")\n    emit(\"out/other\", \"other\")\ntarget(name=\"other\", function=_other)\n")
	}
	if v.OtherAll {
		p.WriteString("def _other_all(t):\n    step(\"other_all\")\n    emit(\"out/other_all\", \"other_all\")\ntarget(name=\"other_all\", function=_other_all)\n")
	}
	if v.Colon {
		p.WriteString("def _colon(t):\n    step(\"co:lon\")\n    emit(\"out/colon\", \"colon\")\ntarget(name=\"co:lon\", function=_colon)\n")
	}
	f["pkg/BUILD.dawn"] = p.String()
	return f
}

func leafSources(v Vars) string {
	if v.XSrc {
		return "[\"b.txt\", \"c.txt\"]"
	}
	return "[\"b.txt\"]"
}

func (v Vars) args() []string {
	return []string{fmt.Sprintf("--pkg.mode=m%d", v.FlagV)}
}

// env returns the abstract version of the code and values target t's function references.
func (v Vars) env(t string) string {
	switch t {
	case tGen:
		return fmt.Sprintf("K%d F%v H%d L%d", v.K, v.KF, v.H, v.Late)
	case tMid:
		return fmt.Sprintf("G%d V%d O%v", v.G, v.V, v.Ord)
	case tTop:
		return fmt.Sprintf("E%v C%v", v.Edge, v.Chatty)
	case tLeaf:
		return fmt.Sprintf("D%d F%d C%v S%v X%v", v.D, v.FlagV, v.Chatty, v.Sabotage, v.XSrc)
	case tOther, tColon, tOtherAll, tDocs:
		return ""
	}
	panic(t)
}

// codeText identifies the code of the build files that define target t's function and the
// helpers it loads, comments, blank lines and docstrings aside. The property (C02) promises no
// re-execution after edits to OTHER packages' build files and after comment edits; an edit to
// the code of a target's own build file may legitimately re-execute it even when the function
// does not refer to what was edited (function code addresses the file's constant pool by index).
func (v Vars) codeText(t string) string {
	w := v
	w.C1, w.C2, w.C3 = false, false, false
	f := w.render()
	var text string
	switch t {
	case tGen, tMid, tTop, tDocs:
		text = f["BUILD.dawn"] + "\x00" + f["lib.dawn"]
	default:
		text = f["pkg/BUILD.dawn"]
	}
	h := sha256.Sum256([]byte(text))
	return hex.EncodeToString(h[:6])
}

// srcs returns the content of target t's declared sources (names and contents for directories).
func (v Vars) srcs(t string, files map[string]string) string {
	switch t {
	case tGen:
		return files["src/a.txt"]
	case tMid:
		var names []string
		for p := range files {
			if strings.HasPrefix(p, "dir/") {
				names = append(names, p)
			}
		}
		sort.Strings(names)
		var b strings.Builder
		for _, n := range names {
			c := files[n]
			if strings.HasPrefix(c, symlinkPrefix) {
				// a link counts with what it resolves to
				c = "->" + files[path.Join(path.Dir(n), strings.TrimPrefix(c, symlinkPrefix))]
			}
			b.WriteString(n + "=" + c + ";")
		}
		g, ok := files["gen/g.txt"]
		return b.String() + fmt.Sprintf("|g=%v:%s", ok, g)
	case tLeaf:
		if v.XSrc {
			return files["pkg/b.txt"] + "|" + files["pkg/c.txt"]
		}
		return files["pkg/b.txt"]
	}
	return ""
}

// deps returns the function targets t depends on (directly, or through a generated source).
func (v Vars) deps(t string) []string {
	switch t {
	case tMid:
		return []string{tGen} // through the generated source gen/g.txt
	case tTop:
		if v.Edge {
			return []string{tMid, tLeaf}
		}
		return []string{tMid}
	case tLeaf:
		if v.Diamond && !v.Cycle {
			return []string{tGen}
		}
	}
	return nil
}

func (v Vars) targets() []string {
	ts := []string{tGen, tMid, tTop, tLeaf, tDocs}
	if v.Other {
		ts = append(ts, tOther)
	}
	if v.Colon {
		ts = append(ts, tColon)
	}
	if v.OtherAll {
		ts = append(ts, tOtherAll)
	}
	return ts
}

func (v Vars) closure(t string) []string {
	seen := map[string]bool{}
	var out []string
	var dfs func(x string)
	dfs = func(x string) {
		if seen[x] {
			return
		}
		seen[x] = true
		for _, d := range v.deps(x) {
			dfs(d)
		}
		out = append(out, x)
	}
	dfs(t)
	return out
}

// declared outputs whose presence is an input of the target
func declaredOutputs(t string) []string {
	if t == tGen {
		return []string{"out/gen.side", "gen/g.txt"} // the one nobody consumes is listed first
	}
	return nil
}

// output files whose content is compared with a from-scratch build
func outputsOf(t string) []string {
	switch t {
	case tGen:
		return []string{"gen/g.txt", "out/gen.side"}
	case tMid:
		return []string{"out/mid"}
	case tTop:
		return []string{"out/top"}
	case tLeaf:
		return []string{"out/leaf"}
	case tOther:
		return []string{"out/other"}
	case tColon:
		return []string{"out/colon"}
	case tOtherAll:
		return []string{"out/other_all"}
	case tDocs:
		return []string{"out/docs"}
	}
	return nil
}

func bodyName(t string) string {
	return t[strings.IndexByte(t, ':')+1:]
}
