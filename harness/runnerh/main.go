// runnerh — C04, C05, C09: the real runner package under the controlled scheduler.
//
// Scenarios are dependency graphs with per-node behaviour (ok / failing body / unknown to
// the loader) and a parallelism limit; the harness implements runner.Targets/Target with a
// monitor, and the explorer enumerates thread interleavings (preemption-bounded, and
// unbounded with happens-before pruning where that terminates).
package main

import (
	"errors"
	"flag"
	"fmt"
	"os"
	"sort"
	"strings"
	"sync"
	"time"

	"github.com/pgavlin/dawn/internal/verif/vlib"
	"github.com/pgavlin/dawn/internal/verif/vsched"
	"github.com/pgavlin/dawn/runner"
)

var fProp = flag.String("prop", "C04", "C04|C05|C09")
var fOnly = flag.String("only", "", "debug: only scenarios whose description contains this")
var fFree = flag.Int("free", 0, "race pass: run every scenario this many times on the real Go scheduler (binary built with -race and without the sync rewriting)")
var fNoPrune = flag.Bool("noprune", false, "disable happens-before pruning (self-check of the pruning argument)")

const (
	kOK = iota
	kFail
	kUnknown
)

type Scenario struct {
	N     int     `json:"n"`
	Deps  [][]int `json:"deps"`  // Deps[i] = nodes i requests, in request order
	Kind  []int   `json:"kind"`  // per node: ok / fail / unknown
	Split []bool  `json:"split"` // node requests its dependencies in two EvaluateTargets calls
	Dup   []bool  `json:"dup,omitempty"` // node names its first dependency twice in one request
	L     int     `json:"limit"`
	Name  string  `json:"name"`
	// Continue: a target keeps requesting its remaining dependency groups after a failed one
	Continue bool `json:"continue"`
}

func (sc *Scenario) String() string {
	var b strings.Builder
	fmt.Fprintf(&b, "%s L=%d ", sc.Name, sc.L)
	for i := 0; i < sc.N; i++ {
		k := [...]string{"", "!fail", "!unknown"}[sc.Kind[i]]
		sp := ""
		if sc.Split[i] {
			sp = "/split"
		}
		if len(sc.Dup) > i && sc.Dup[i] {
			sp += "/dup"
		}
		fmt.Fprintf(&b, "%d%s%s->%v ", i, k, sp, sc.Deps[i])
	}
	return b.String()
}

func label(i int) string { return fmt.Sprintf("t%d", i) }

// reachable returns the set of nodes reachable from 0, following edges only out of nodes
// that can run a body (unknown nodes never request anything).
func (sc *Scenario) reachable() []bool {
	seen := make([]bool, sc.N)
	var dfs func(i int)
	dfs = func(i int) {
		if seen[i] {
			return
		}
		seen[i] = true
		if sc.Kind[i] == kUnknown {
			return
		}
		for _, d := range sc.Deps[i] {
			dfs(d)
		}
	}
	dfs(0)
	return seen
}

// cyclic reports whether the part of the graph reachable from 0 contains a cycle.
func (sc *Scenario) cyclic() bool {
	state := make([]int, sc.N)
	var dfs func(i int) bool
	dfs = func(i int) bool {
		if state[i] == 1 {
			return true
		}
		if state[i] == 2 {
			return false
		}
		state[i] = 1
		if sc.Kind[i] != kUnknown {
			for _, d := range sc.Deps[i] {
				if dfs(d) {
					return true
				}
			}
		}
		state[i] = 2
		return false
	}
	return dfs(0)
}

// ---- harness implementation of runner.Targets / runner.Target ------------------------------

type world struct {
	mu   *sync.Mutex // free-running race pass only: guards the monitor (nil under vsched)
	sc   *Scenario
	mon  vsched.Obj
	tgts []*tgt

	loadCalls []int
	evalCalls []int
	finished  []bool
	outcome   []error
	inside    int
	maxInside int
	cyclicErr int // number of CyclicDependencyError results handed to targets
	order     []string
	bad       []string // oracle failures: "sig|text"
}

type tgt struct {
	w *world
	i int
}

func (w *world) lock() {
	if w.mu != nil {
		w.mu.Lock()
	}
}

func (w *world) unlock() {
	if w.mu != nil {
		w.mu.Unlock()
	}
}

func (w *world) fail(sig, format string, a ...any) {
	w.bad = append(w.bad, sig+"|"+fmt.Sprintf(format, a...))
}

func (w *world) enter() {
	w.inside++
	if w.inside > w.maxInside {
		w.maxInside = w.inside
	}
	if w.inside > w.sc.L {
		w.fail("limit-exceeded", "%d targets executing with limit %d", w.inside, w.sc.L)
	}
}

func (w *world) LoadTarget(lbl string) (runner.Target, error) {
	vsched.Access(&w.mon, true)
	w.lock()
	defer w.unlock()
	var i int
	fmt.Sscanf(lbl, "t%d", &i)
	w.loadCalls[i]++
	if w.loadCalls[i] > 1 {
		w.fail("loaded-twice", "LoadTarget(%s) called %d times", lbl, w.loadCalls[i])
	}
	w.enter()
	if w.sc.Kind[i] == kUnknown {
		err := fmt.Errorf("unknown target %s", lbl)
		w.outcome[i] = err
		w.finished[i] = true
		w.order = append(w.order, "x"+lbl)
		w.inside--
		return nil, err
	}
	return w.tgts[i], nil
}

func (t *tgt) Evaluate(e runner.Engine) error {
	w, i := t.w, t.i
	vsched.Access(&w.mon, true)
	w.lock()
	w.evalCalls[i]++
	if w.evalCalls[i] > 1 {
		w.fail("evaluated-twice", "Evaluate(t%d) called %d times", i, w.evalCalls[i])
	}
	w.order = append(w.order, "s"+label(i))
	w.unlock()
	finish := func(err error) error {
		vsched.Access(&w.mon, true)
		w.lock()
		w.outcome[i] = err
		w.finished[i] = true
		w.order = append(w.order, "e"+label(i))
		w.inside--
		w.unlock()
		return err
	}
	deps := w.sc.Deps[i]
	var groups [][]int
	if w.sc.Split[i] && len(deps) >= 2 {
		groups = [][]int{deps[:1], deps[1:]}
	} else if len(deps) > 0 {
		groups = [][]int{deps}
	}
	if len(w.sc.Dup) > i && w.sc.Dup[i] && len(groups) > 0 {
		// the same dependency named twice in one request (two spellings of one label, a list built by a loop)
		last := len(groups) - 1
		groups[last] = append(append([]int{}, groups[last]...), groups[last][0])
	}
	var depErr error
	for _, g := range groups {
		labels := make([]string, len(g))
		for k, d := range g {
			labels[k] = label(d)
		}
		vsched.Access(&w.mon, true)
		w.lock()
		w.inside--
		w.unlock()
		res := e.EvaluateTargets(labels...)
		vsched.Access(&w.mon, true)
		w.lock()
		w.enter()
		if len(res) != len(g) {
			w.fail("result-count", "EvaluateTargets(%v) returned %d results", labels, len(res))
			w.unlock()
			continue
		}
		anyCyclic := false
		for _, r := range res {
			var ce runner.CyclicDependencyError
			if errors.As(r.Error, &ce) {
				anyCyclic = true
			}
		}
		for k, d := range g {
			r := res[k]
			var ce runner.CyclicDependencyError
			if errors.As(r.Error, &ce) {
				w.cyclicErr++
				depErr = r.Error
				continue
			}
			if anyCyclic {
				continue
			}
			if !w.finished[d] {
				w.fail("continued-before-dependency-finished", "t%d continued past its request while t%d had not finished", i, d)
				continue
			}
			if r.Error != w.outcome[d] {
				w.fail("wrong-outcome", "t%d was handed %v for t%d whose outcome is %v", i, r.Error, d, w.outcome[d])
			}
			if w.outcome[d] == nil && r.Target != runner.Target(w.tgts[d]) {
				w.fail("wrong-target", "t%d was handed the wrong target object for t%d", i, d)
			}
			if r.Error != nil {
				depErr = r.Error
			}
		}
		w.unlock()
		if depErr != nil && !w.sc.Continue {
			break
		}
	}
	if depErr != nil {
		return finish(fmt.Errorf("t%d: dependency failed: %w", i, depErr))
	}
	if w.sc.Kind[i] == kFail {
		return finish(fmt.Errorf("t%d failed", i))
	}
	return finish(nil)
}

func newWorld(sc *Scenario) *world {
	w := &world{sc: sc}
	w.mon.Desc = "monitor"
	w.loadCalls = make([]int, sc.N)
	w.evalCalls = make([]int, sc.N)
	w.finished = make([]bool, sc.N)
	w.outcome = make([]error, sc.N)
	for i := 0; i < sc.N; i++ {
		w.tgts = append(w.tgts, &tgt{w, i})
	}
	return w
}

// ---- one execution + oracle ------------------------------------------------------------------

type execOut struct {
	res    *vsched.Result
	w      *world
	runErr error
	ret    bool
}

func runOnce(sc *Scenario, prefix []int, trace bool) *execOut {
	o := &execOut{w: newWorld(sc)}
	o.res = vsched.Execute(prefix, vsched.Options{NumCPU: sc.L, Trace: trace}, func() {
		o.runErr = runner.Run(o.w, label(0))
		o.ret = true
	})
	return o
}

// verdicts returns "sig|text" oracle failures for property prop.
func verdicts(prop string, sc *Scenario, o *execOut) []string {
	var bad []string
	w := o.w
	res := o.res
	if res.Panic != "" {
		bad = append(bad, "panic|"+firstLine(res.Panic))
	}
	term := res.Deadlock == "" && res.Livelock == "" && res.Panic == ""
	cyc := sc.cyclic()
	switch prop {
	case "C04":
		if res.Deadlock != "" {
			bad = append(bad, "deadlock|"+res.Deadlock)
		}
		if res.Livelock != "" {
			bad = append(bad, "livelock|"+res.Livelock)
		}
		for _, b := range w.bad {
			if !strings.HasPrefix(b, "limit-exceeded") {
				bad = append(bad, b)
			}
		}
		if term {
			if !o.ret {
				bad = append(bad, "run-did-not-return|Run did not return")
			} else if o.runErr != w.outcome[0] {
				bad = append(bad, fmt.Sprintf("wrong-run-result|Run returned %v, requested target's outcome is %v", o.runErr, w.outcome[0]))
			}
			reach := sc.reachable()
			for i := 0; i < sc.N; i++ {
				// every reachable target whose dependents all got that far is loaded exactly once;
				// unreachable ones never
				if !reach[i] && w.loadCalls[i] != 0 {
					bad = append(bad, fmt.Sprintf("unrequested-target-loaded|t%d loaded though unreachable", i))
				}
			}
			if w.loadCalls[0] != 1 {
				bad = append(bad, "root-not-loaded|requested target not loaded exactly once")
			}
			if !cyc && w.cyclicErr != 0 {
				// the outcome handed over must be the dependency's actual outcome: in an acyclic
				// graph nobody's outcome is a dependency cycle
				bad = append(bad, "wrong-outcome|a target was handed a CyclicDependencyError for a dependency in an acyclic graph")
			}
		}
	case "C05":
		if res.Deadlock != "" {
			bad = append(bad, "deadlock|"+res.Deadlock)
		}
		if res.Livelock != "" {
			bad = append(bad, "livelock|"+res.Livelock)
		}
		if term {
			if cyc {
				if o.runErr == nil {
					bad = append(bad, "cycle-not-reported|Run returned nil though a cycle is reachable")
				}
				if w.cyclicErr == 0 {
					bad = append(bad, "cycle-not-reported|no target was handed a CyclicDependencyError though a cycle is reachable")
				}
			} else if w.cyclicErr != 0 {
				bad = append(bad, "false-cycle|CyclicDependencyError handed out in an acyclic graph")
			}
		}
	case "C09":
		if res.Deadlock != "" {
			bad = append(bad, "deadlock|"+res.Deadlock)
		}
		if res.Livelock != "" {
			bad = append(bad, "livelock|"+res.Livelock)
		}
		for _, b := range w.bad {
			if strings.HasPrefix(b, "limit-exceeded") {
				bad = append(bad, b)
			}
		}
		if term && w.inside != 0 {
			bad = append(bad, fmt.Sprintf("monitor-imbalance|%d targets still executing after Run returned", w.inside))
		}
	}
	return bad
}

func firstLine(s string) string {
	if i := strings.IndexByte(s, '\n'); i >= 0 {
		return s[:i]
	}
	return s
}

// ---- scenario families ------------------------------------------------------------------------

func normalise(sc *Scenario) string {
	return sc.String()
}

// dags returns all DAGs on n nodes (edges i->j only for i<j) whose nodes are all reachable from 0.
func dags(n int) [][][]int {
	var pairs [][2]int
	for i := 0; i < n; i++ {
		for j := i + 1; j < n; j++ {
			pairs = append(pairs, [2]int{i, j})
		}
	}
	var out [][][]int
	for m := 0; m < 1<<len(pairs); m++ {
		deps := make([][]int, n)
		for b, p := range pairs {
			if m>>b&1 == 1 {
				deps[p[0]] = append(deps[p[0]], p[1])
			}
		}
		sc := Scenario{N: n, Deps: deps, Kind: make([]int, n)}
		all := true
		for _, r := range sc.reachable() {
			all = all && r
		}
		if all {
			out = append(out, deps)
		}
	}
	return out
}

// digraphs returns all directed graphs (self-loops allowed) on n nodes, all reachable from 0.
func digraphs(n int) [][][]int {
	var out [][][]int
	for m := 0; m < 1<<(n*n); m++ {
		deps := make([][]int, n)
		for i := 0; i < n; i++ {
			for j := 0; j < n; j++ {
				if m>>(i*n+j)&1 == 1 {
					deps[i] = append(deps[i], j)
				}
			}
		}
		sc := Scenario{N: n, Deps: deps, Kind: make([]int, n)}
		all := true
		for _, r := range sc.reachable() {
			all = all && r
		}
		if all {
			out = append(out, deps)
		}
	}
	return out
}

func mk(deps [][]int, kind []int, split []bool, L int) *Scenario {
	n := len(deps)
	if kind == nil {
		kind = make([]int, n)
	}
	if split == nil {
		split = make([]bool, n)
	}
	return &Scenario{N: n, Deps: deps, Kind: kind, Split: split, L: L}
}

func markings(n int, maxBad int) [][]int {
	out := [][]int{make([]int, n)}
	if maxBad >= 1 {
		for i := 0; i < n; i++ {
			for _, k := range []int{kFail, kUnknown} {
				m := make([]int, n)
				m[i] = k
				out = append(out, m)
			}
		}
	}
	if maxBad >= 2 {
		for i := 0; i < n; i++ {
			for j := i + 1; j < n; j++ {
				for _, ki := range []int{kFail, kUnknown} {
					for _, kj := range []int{kFail, kUnknown} {
						m := make([]int, n)
						m[i], m[j] = ki, kj
						out = append(out, m)
					}
				}
			}
		}
	}
	return out
}

type job struct {
	sc    *Scenario
	bound int // preemption bound; -1 = unbounded with pruning
	prune bool
	fan   int // > 0: expected max concurrency over all executions (C09)
}

func scenarios(prop string, thorough bool) []job {
	var jobs []job
	add := func(sc *Scenario, bound int, prune bool) {
		// a marking on a node that is no longer reachable duplicates another scenario
		jobs = append(jobs, job{sc: sc, bound: bound, prune: prune})
	}
	limits := []int{1, 2, 3}
	switch prop {
	case "C04", "C09":
		for n := 1; n <= 4; n++ {
			for _, deps := range dags(n) {
				maxBad := 1
				if n <= 3 {
					maxBad = 2
				}
				for _, kind := range markings(n, maxBad) {
					for _, L := range limits {
						sc := mk(deps, kind, nil, L)
						bound := 2
						if n == 4 && !thorough {
							bound = 1
						}
						if thorough {
							bound = 3
						}
						add(sc, bound, true)
						if thorough && n <= 3 {
							add(mk(deps, kind, nil, L), -1, true)
						}
					}
				}
				// a dependency named twice in one request (2- and 3-node graphs; 4-node in thorough)
				if n == 2 || n == 3 || (n == 4 && thorough) {
					for i := 0; i < n; i++ {
						if len(deps[i]) >= 1 {
							for _, L := range limits {
								b := 2
								if thorough {
									b = 3
								}
								sc := mk(deps, nil, nil, L)
								sc.Dup = make([]bool, n)
								sc.Dup[i] = true
								add(sc, b, true)
							}
						}
					}
				}
				// dependencies requested in two calls (3-node graphs; 4-node in thorough)
				if n == 3 || (n == 4 && thorough) {
					for i := 0; i < n; i++ {
						if len(deps[i]) >= 2 {
							split := make([]bool, n)
							split[i] = true
							for _, L := range limits {
								b := 2
								if thorough {
									b = 3
								}
								add(mk(deps, nil, split, L), b, true)
							}
						}
					}
				}
			}
		}
		if prop == "C09" {
			// cyclic graphs too: slots must be conserved on the cycle-detection path
			for n := 1; n <= 3; n++ {
				for _, deps := range digraphs(n) {
					sc := mk(deps, nil, nil, 1)
					if !sc.cyclic() {
						continue
					}
					for _, L := range limits {
						b := 2
						if n == 3 && !thorough {
							b = 1
						}
						add(mk(deps, nil, nil, L), b, true)
					}
				}
			}
			// a wide fan at limit 2: two targets inside, two asleep at the gate
			{
				deps := [][]int{{1, 2, 3, 4}, {}, {}, {}, {}}
				sc := mk(deps, nil, nil, 2)
				sc.Name = "fan4"
				jobs = append(jobs, job{sc: sc, bound: 2, prune: true, fan: 2})
			}
			// special path first (requested in a first call), then a fan (second call): a slot lost or
			// gained on the special path shows in the fan that follows.
			widths := []int{3}
			if thorough {
				widths = []int{3, 4}
			}
			for _, w := range widths {
				for _, L := range limits {
					for _, pre := range []string{"none", "unknown", "fail", "cycle", "nested"} {
						var deps [][]int
						var kind []int
						var split []bool
						switch pre {
						case "none":
							deps, kind, split = [][]int{{}}, []int{kOK}, []bool{false}
						case "unknown":
							deps, kind, split = [][]int{{1}, {}}, []int{kOK, kUnknown}, []bool{true, false}
						case "fail":
							deps, kind, split = [][]int{{1}, {}}, []int{kOK, kFail}, []bool{true, false}
						case "cycle":
							deps, kind, split = [][]int{{1}, {1}}, []int{kOK, kOK}, []bool{true, false}
						case "nested":
							deps, kind, split = [][]int{{1}, {}}, []int{kOK, kOK}, []bool{false, false}
						}
						fanRoot := 0
						if pre == "nested" {
							fanRoot = 1
						}
						for k := 0; k < w; k++ {
							deps = append(deps, []int{})
							kind = append(kind, kOK)
							split = append(split, false)
							deps[fanRoot] = append(deps[fanRoot], len(deps)-1)
						}
						sc := mk(deps, kind, split, L)
						sc.Continue = true
						sc.Name = fmt.Sprintf("fan%d-after-%s", w, pre)
						// reaching k concurrent targets needs k-1 preemptions
						b := 2
						if w == 4 {
							b = 3
						}
						exp := w
						if L < w {
							exp = L
						}
						if b+1 < exp {
							exp = b + 1
						}
						jobs = append(jobs, job{sc: sc, bound: b, prune: true, fan: exp})
					}
				}
			}
		}
	case "C05":
		for n := 1; n <= 3; n++ {
			for _, deps := range digraphs(n) {
				for _, L := range limits {
					b := 2
					if thorough {
						b = 3
					}
					add(mk(deps, nil, nil, L), b, true)
					if thorough && n <= 2 {
						add(mk(deps, nil, nil, L), -1, true)
					}
				}
			}
		}
		// cyclic graphs in which one target fails or does not exist: a failure that lands first
		// must not hide the cycle from the targets that are on it
		for _, deps := range digraphs(3) {
			sc0 := mk(deps, nil, nil, 1)
			if !sc0.cyclic() {
				continue
			}
			for _, kind := range markings(3, 1) {
				allOK := true
				for _, k := range kind {
					allOK = allOK && k == kOK
				}
				if allOK {
					continue
				}
				for _, L := range []int{1, 2} {
					b := 1
					if thorough {
						b = 2
					}
					add(mk(deps, kind, nil, L), b, true)
				}
			}
		}
		// wide fans at a small limit: several targets asleep at the gate at once (lost wake-ups
		// between back-to-back exits need at least two sleepers)
		for _, w := range []int{4} {
			deps := make([][]int, w+1)
			for k := 1; k <= w; k++ {
				deps[0] = append(deps[0], k)
			}
			b := 2 // two targets stopped inside the gate while two more fall asleep at it
			if thorough {
				b = 3
			}
			sc := mk(deps, nil, nil, 2)
			sc.Name = fmt.Sprintf("fan%d", w)
			add(sc, b, true)
		}
		// selected 4-node graphs: overlapping cycles, a cycle behind a tail, a cycle beside an
		// acyclic branch, a walker outside the cycle
		special := [][][]int{
			{{1}, {2}, {3}, {1}},       // tail then 3-cycle
			{{1, 2}, {2}, {1}, {}},     // two entries into a 2-cycle
			{{1, 3}, {2}, {1}, {}},     // 2-cycle beside an acyclic branch
			{{1}, {2, 3}, {1}, {1}},    // overlapping 2-cycles sharing node 1
			{{1, 2}, {3}, {3}, {0}},    // diamond closing back to the root
			{{1, 2, 3}, {2}, {3}, {1}}, // root watches a 3-cycle from three sides
			{{1}, {2}, {3}, {3}},       // tail to a self-loop
			{{1, 2}, {3}, {3}, {}},     // plain diamond (acyclic control)
		}
		for _, deps := range special {
			for _, L := range limits {
				b := 1
				if thorough {
					b = 2
				}
				add(mk(deps, nil, nil, L), b, true)
			}
		}
	}
	// drop duplicates
	seen := map[string]bool{}
	var out []job
	for _, j := range jobs {
		k := fmt.Sprintf("%s|%d|%v", normalise(j.sc), j.bound, j.prune)
		if !seen[k] {
			seen[k] = true
			out = append(out, j)
		}
	}
	return out
}

type replayFile struct {
	Scenario *Scenario `json:"scenario"`
	Choices  []int     `json:"choices"`
	Bound    int       `json:"bound"`
	Observed []string  `json:"observed"`
	Order    []string  `json:"order"`
	Logs     any       `json:"thread_logs,omitempty"`
}

func main() {
	flag.Parse()
	prop := *fProp
	r := vlib.Start(prop)
	jobs := scenarios(prop, r.Thorough())
	if r.ReplayIn != "" {
		replay(r, prop)
		return
	}
	if *fOnly != "" {
		var js []job
		for _, j := range jobs {
			if strings.Contains(j.sc.String(), *fOnly) {
				js = append(js, j)
			}
		}
		jobs = js
	}
	if *fFree > 0 {
		freePass(r, prop, jobs)
		return
	}
	r.Distribute(len(jobs), func(ji int) {
		j := jobs[ji]
		sc := j.sc
		if *fOnly != "" {
			defer func() {
				fmt.Printf("scenario %s bound=%d execs=%d maxpoints=%d maxsteps=%d\n", sc, j.bound, r.Get("executions"), r.GetMax("points_per_execution"), r.GetMax("steps_per_execution"))
			}()
		}
		outcomes := map[string]bool{}
		maxConc := 0
		ex := &vsched.Explorer{Bound: j.bound, Prune: j.prune && !*fNoPrune, MaxExecs: 3_000_000}
		ex.Run = func(prefix []int) *vsched.Result {
			o := runOnce(sc, prefix, false)
			if r.Expired() {
				ex.Deadline = ex.Deadline // no-op; budget handled below
			}
			bad := verdicts(prop, sc, o)
			outcomes[strings.Join(o.w.order, " ")] = true
			if o.w.maxInside > maxConc {
				maxConc = o.w.maxInside
			}
			if len(bad) > 0 {
				// determinism: the same schedule must fail the same way twice more
				for k := 0; k < 2; k++ {
					o2 := runOnce(sc, o.res.Choices, false)
					b2 := verdicts(prop, sc, o2)
					if strings.Join(b2, ";") != strings.Join(bad, ";") {
						vlib.Fatalf("violation did not reproduce on replay (nondeterminism not owned): %v vs %v in %s", bad, b2, sc)
					}
				}
				ot := runOnce(sc, o.res.Choices, true)
				for _, b := range bad {
					parts := strings.SplitN(b, "|", 2)
					r.Violation(prop+":"+parts[0], fmt.Sprintf("%s [%s] schedule=%v", parts[1], sc, o.res.Choices),
						replayFile{Scenario: sc, Choices: o.res.Choices, Bound: j.bound, Observed: bad, Order: o.w.order, Logs: ot.res.Logs})
				}
				o.res.Points = nil // do not extend a failing execution
			}
			return o.res
		}
		ex.Check = func(res *vsched.Result) bool { return !r.Expired() }
		if r.Budget != 0 {
			// leave the deadline to r.Expired()
		}
		ex.Explore()
		if ex.Capped != "" || ex.Stopped {
			r.Cap(fmt.Sprintf("exploration cut (%s%v) in some scenarios", ex.Capped, map[bool]string{true: " wall-clock budget", false: ""}[ex.Stopped]))
		}
		if j.fan > 0 && ex.Capped == "" && !ex.Stopped && maxConc != j.fan {
			r.Violation(prop+":parallelism-mismatch", fmt.Sprintf("max concurrency over %d executions is %d, expected %d [%s]", ex.Execs, maxConc, j.fan, sc),
				replayFile{Scenario: sc, Bound: j.bound, Observed: []string{fmt.Sprintf("max concurrency %d expected %d", maxConc, j.fan)}})
		}
		// self-check of replay determinism on the last schedule of this scenario
		r.Add("executions", ex.Execs)
		r.Add("scenarios", 1)
		r.Add("pruned_prefixes", ex.PrunedAt)
		r.Add(fmt.Sprintf("executions_bound_%d", j.bound), ex.Execs)
		r.Max("points_per_execution", int64(ex.MaxPoints))
		r.Max("steps_per_execution", int64(ex.MaxSteps))
		if len(outcomes) > 1 {
			r.Add("scenarios_with_contention", 1)
		}
		r.Add("distinct_orders", int64(len(outcomes)))
		r.Max("distinct_orders_in_one_scenario", int64(len(outcomes)))
		if ji%97 == 0 {
			r.Sample(map[string]any{"scenario": sc.String(), "bound": j.bound, "executions": ex.Execs, "distinct_completion_orders": len(outcomes)})
		}
	})
	bounds := map[string]any{}
	bs := map[int]int{}
	for _, j := range jobs {
		bs[j.bound]++
	}
	var keys []int
	for k := range bs {
		keys = append(keys, k)
	}
	sort.Ints(keys)
	for _, k := range keys {
		bounds[fmt.Sprintf("scenarios_at_preemption_bound_%d", k)] = bs[k]
	}
	bounds["limits"] = []int{1, 2, 3}
	r.Assumptions = []string{
		"scheduling points at every mutex lock, condition wait/signal/broadcast, atomic and sync.Map operation and goroutine spawn; sequential consistency",
		"sync.Cond without spurious wake-ups; Signal wakes any one waiter (explored)",
		"termination under fair scheduling: a thread that keeps re-reading the same location while nobody else moves is kept back until another thread steps",
		"data-race freedom of runner.go (checked separately by the race-detector pass in the thorough tier)",
	}
	r.Finish(vlib.Coverage{
		Evaluations:        r.Get("executions"),
		DistinctNontrivial: r.Get("scenarios_with_contention"),
		Rule:               "one evaluation = one complete interleaving of runner.Run on one scenario (graph x node behaviours x limit); a scenario is non-trivial when its explored interleavings produce more than one distinct completion order",
		States:             r.Get("distinct_orders"),
		Transitions:        r.Get("executions"),
		Exhaustive:         true,
		Outcomes:           r.Get("distinct_orders"),
		Bounds:             bounds,
	})
}

func replay(r *vlib.Run, prop string) {
	var rf replayFile
	r.LoadReplay(&rf)
	o := runOnce(rf.Scenario, rf.Choices, true)
	bad := verdicts(prop, rf.Scenario, o)
	fmt.Printf("scenario: %s\nschedule: %v\ncompletion order: %v\nRun returned: %v\n", rf.Scenario, rf.Choices, o.w.order, o.runErr)
	var ids []string
	for id := range o.res.Logs {
		ids = append(ids, id)
	}
	sort.Strings(ids)
	for _, id := range ids {
		fmt.Printf("thread %s: %s\n", id, strings.Join(o.res.Logs[id], "; "))
	}
	if len(bad) == 0 {
		fmt.Println("observed: no violation on this tree")
		os.Exit(0)
	}
	for _, b := range bad {
		fmt.Println("observed:", b)
	}
	fmt.Printf("VIOLATION property=%s replay=%s\n", prop, r.ReplayIn)
	os.Exit(1)
}

// freePass runs the same harness bodies free-running (no controlled scheduler): the binary is
// built with -race, so unsynchronised accesses in runner.go - which the cooperative scheduler
// cannot see - are reported by the race detector. Schedule-independent oracles still apply.
func freePass(r *vlib.Run, prop string, jobs []job) {
	seen := map[string]bool{}
	n := 0
	for _, j := range jobs {
		k := j.sc.String()
		if seen[k] {
			continue
		}
		seen[k] = true
		for it := 0; it < *fFree; it++ {
			w := newWorld(j.sc)
			w.mu = &sync.Mutex{}
			w.sc = &Scenario{N: j.sc.N, Deps: j.sc.Deps, Kind: j.sc.Kind, Split: j.sc.Split, L: 1 << 20, Continue: j.sc.Continue, Name: j.sc.Name}
			done := make(chan error, 1)
			go func() { done <- runner.Run(w, label(0)) }()
			select {
			case <-done:
			case <-time.After(30 * time.Second):
				fmt.Printf("VIOLATION property=%s replay=-\n  free-running execution of %s did not finish within 30s\n", prop, j.sc)
				os.Exit(1)
			}
			w.mu.Lock()
			bad := append([]string{}, w.bad...)
			w.mu.Unlock()
			for _, b := range bad {
				if !strings.HasPrefix(b, "limit-exceeded") {
					fmt.Printf("VIOLATION property=%s replay=-\n  free-running: %s in %s\n", prop, b, j.sc)
					os.Exit(1)
				}
			}
			n++
		}
	}
	fmt.Printf("%s race pass: %d free-running executions of %d scenarios, no data race reported by the detector\n", prop, n, len(seen))
	os.Exit(0)
}
