// C19 — project configuration round-trips through its file format.
//
// Bounded-exhaustive enumeration of valid project.Config values (requirement versions in
// canonical semver, requirement paths in clean form; arbitrary Unicode, quotes and control
// characters in every string and in requirement keys). Oracle = the round trip itself:
//
//	WriteConfigFile(c) must succeed, LoadConfigFile of the written file must succeed and
//	yield c (nil and empty slices/maps identified), and WriteConfigFile of the loaded value
//	must produce the same bytes.
//
// Every failing configuration is reduced (greedy delta debugging on the real code) to a
// 1-minimal configuration; the cause signature names the failure kind plus the fields (and the
// character class of their smallest failing string) that remain in the reduced configuration.
package main

import (
	"bytes"
	"crypto/sha256"
	"encoding/json"
	"fmt"
	"os"
	"path"
	"path/filepath"
	"sort"
	"strconv"
	"strings"
	"sync"
	"sync/atomic"

	"github.com/pgavlin/dawn/internal/project"
	"github.com/pgavlin/dawn/internal/verif/vlib"
	"golang.org/x/mod/semver"
)

// ---- benign values ----------------------------------------------------------------------

const (
	benName       = "proj"
	benVersion    = "0.1.0"
	benIgnore     = "x"
	benKey        = "dep"
	benPath       = "example.com/dep"
	benReqVersion = "v1.0.0"
)

const (
	pName = iota
	pVersion
	pIgnore
	pReqKey
	pReqPath
	nPos
)

var posNames = []string{"name", "version", "ignore", "reqkey", "reqpath"}

// build makes the benign configuration with the given positions overridden.
func build(over map[int]string) project.Config {
	v := [nPos]string{benName, benVersion, benIgnore, benKey, benPath}
	for p, s := range over {
		v[p] = s
	}
	return project.Config{
		Name:    v[pName],
		Version: v[pVersion],
		Ignore:  []string{v[pIgnore]},
		Requirements: map[string]project.RequirementConfig{
			v[pReqKey]: {Path: v[pReqPath], Version: benReqVersion},
		},
	}
}

func clone(c project.Config) project.Config {
	o := project.Config{Name: c.Name, Version: c.Version}
	if c.Ignore != nil {
		o.Ignore = append([]string{}, c.Ignore...)
	}
	if c.Requirements != nil {
		o.Requirements = make(map[string]project.RequirementConfig, len(c.Requirements))
		for k, v := range c.Requirements {
			o.Requirements[k] = v
		}
	}
	return o
}

func sortedKeys(m map[string]project.RequirementConfig) []string {
	ks := make([]string, 0, len(m))
	for k := range m {
		ks = append(ks, k)
	}
	sort.Strings(ks)
	return ks
}

// ---- the precondition of the property -----------------------------------------------------

func canonicalVersion(v string) bool { return semver.IsValid(v) && semver.Canonical(v) == v }

// validReason returns "" for a configuration inside the property's quantifier.
func validReason(c *project.Config) string {
	for _, req := range c.Requirements {
		if !canonicalVersion(req.Version) {
			return "skipped-not-canonical"
		}
	}
	for _, req := range c.Requirements {
		if refCleanPath(req.Path) != req.Path {
			return "skipped-not-clean"
		}
	}
	return ""
}

// ---- oracle --------------------------------------------------------------------------------

// equalConfig compares with nil and empty slices/maps identified; it names the first differing field.
func equalConfig(a, b *project.Config) (string, bool) {
	if a.Name != b.Name {
		return fmt.Sprintf("name: wrote %q, loaded %q", a.Name, b.Name), false
	}
	if a.Version != b.Version {
		return fmt.Sprintf("version: wrote %q, loaded %q", a.Version, b.Version), false
	}
	if len(a.Ignore) != len(b.Ignore) {
		return fmt.Sprintf("ignore: wrote %q, loaded %q", a.Ignore, b.Ignore), false
	}
	for i := range a.Ignore {
		if a.Ignore[i] != b.Ignore[i] {
			return fmt.Sprintf("ignore[%d]: wrote %q, loaded %q", i, a.Ignore[i], b.Ignore[i]), false
		}
	}
	if len(a.Requirements) != len(b.Requirements) {
		return fmt.Sprintf("requirement keys: wrote %q, loaded %q", sortedKeys(a.Requirements), sortedKeys(b.Requirements)), false
	}
	for _, k := range sortedKeys(a.Requirements) {
		ra := a.Requirements[k]
		rb, ok := b.Requirements[k]
		if !ok {
			return fmt.Sprintf("requirement keys: wrote %q, loaded %q", sortedKeys(a.Requirements), sortedKeys(b.Requirements)), false
		}
		if ra.Path != rb.Path {
			return fmt.Sprintf("requirement %q path: wrote %q, loaded %q", k, ra.Path, rb.Path), false
		}
		if ra.Version != rb.Version {
			return fmt.Sprintf("requirement %q version: wrote %q, loaded %q", k, ra.Version, rb.Version), false
		}
	}
	return "", true
}

type result struct {
	kind    string // "ok" or the failure kind
	detail  string
	written []byte
	ops     int64
}

func readBack(file string) []byte {
	b, err := os.ReadFile(file)
	if err != nil {
		vlib.Fatalf("reading scratch file back: %v", err)
	}
	return b
}

// run performs write + load + write on the real code.
func run(c *project.Config, file string) (res result) {
	defer func() {
		if p := recover(); p != nil {
			res.kind, res.detail = "panic", fmt.Sprint(p)
		}
	}()
	os.Remove(file)
	err := project.WriteConfigFile(file, c)
	res.ops++
	if err != nil {
		res.kind, res.detail = "write-error", err.Error()
		return
	}
	res.written = readBack(file)
	c2, err := project.LoadConfigFile(file)
	res.ops++
	if err != nil {
		res.kind, res.detail = "written-file-does-not-load", oneLine(err.Error())
		return
	}
	if c2 == nil {
		res.kind, res.detail = "written-file-does-not-load", "LoadConfigFile returned nil, nil"
		return
	}
	if d, ok := equalConfig(c, c2); !ok {
		res.kind, res.detail = "roundtrip-mismatch", d
		return
	}
	err = project.WriteConfigFile(file, c2)
	res.ops++
	if err != nil {
		res.kind, res.detail = "write-error", "second write: "+err.Error()
		return
	}
	if b2 := readBack(file); !bytes.Equal(res.written, b2) {
		res.kind, res.detail = "rewrite-not-idempotent", fmt.Sprintf("second write produced %q", b2)
		return
	}
	// a configuration file is normally REwritten (tidy, get): writing over an existing, longer
	// file must give the same bytes as writing a fresh one
	if err = project.WriteConfigFile(file, &previousConfig); err != nil {
		vlib.Fatalf("writing the previous configuration: %v", err)
	}
	err = project.WriteConfigFile(file, c)
	res.ops += 2
	if err != nil {
		res.kind, res.detail = "write-error", "write over an existing file: "+err.Error()
		return
	}
	if b3 := readBack(file); !bytes.Equal(res.written, b3) {
		res.kind, res.detail = "overwrite-differs-from-fresh-write", fmt.Sprintf("writing over an existing, longer file produced %q", b3)
		return
	}
	res.kind = "ok"
	return
}

// previousConfig is what the file holds before it is rewritten: longer than every enumerated configuration.
var previousConfig = func() project.Config {
	c := project.Config{Name: strings.Repeat("previous-name-", 40), Version: "v9.9.9", Ignore: []string{strings.Repeat("ignored/", 60)}, Requirements: map[string]project.RequirementConfig{}}
	for i := 0; i < 8; i++ {
		c.Requirements[fmt.Sprintf("previous-requirement-%d", i)] = project.RequirementConfig{Path: fmt.Sprintf("example.com/previous/%d@v3", i), Version: "v3.2.1"}
	}
	return c
}()

func oneLine(s string) string {
	s = strings.ReplaceAll(s, "\n", " | ")
	if len(s) > 300 {
		s = s[:300] + "..."
	}
	return s
}

// ---- reduction of a failing configuration ----------------------------------------------------

// minimize greedily reduces c while run() keeps failing with the same kind and the
// configuration stays inside the precondition. The result is 1-minimal for: removing a
// requirement / an ignore entry / name / version, replacing a field by its benign value,
// deleting one rune of a non-benign string (never down to the empty string).
func minimize(c project.Config, kind, file string, runs *int64) (project.Config, result) {
	cur := clone(c)
	var curRes result
	try := func(cand project.Config) bool {
		if validReason(&cand) != "" {
			return false
		}
		res := run(&cand, file)
		*runs++
		if res.kind == kind {
			cur, curRes = cand, res
			return true
		}
		return false
	}
	if !try(clone(c)) {
		// the same configuration does not fail the same way twice: what is written depends on
		// something else than the configuration (map iteration order, say)
		res := run(&c, file)
		res.kind, res.detail = "written-bytes-not-a-function-of-the-configuration", "a "+kind+" failure on this configuration did not repeat on a second attempt"
		return clone(c), res
	}
	shrink := func(s string, benign string, set func(*project.Config, string) bool) bool {
		if s == benign {
			return false
		}
		rs := []rune(s)
		for i := range rs {
			t := string(rs[:i]) + string(rs[i+1:])
			if t == "" {
				// the empty string is a class of its own (absent name/version, empty key): a
				// failure of a non-empty string is never attributed to it
				continue
			}
			cand := clone(cur)
			if !set(&cand, t) {
				continue
			}
			if try(cand) {
				return true
			}
		}
		return false
	}
	for progress := true; progress; {
		progress = false
		for _, k := range sortedKeys(cur.Requirements) {
			cand := clone(cur)
			delete(cand.Requirements, k)
			progress = try(cand) || progress
		}
		for i := len(cur.Ignore) - 1; i >= 0; i-- {
			cand := clone(cur)
			cand.Ignore = append(cand.Ignore[:i:i], cand.Ignore[i+1:]...)
			progress = try(cand) || progress
		}
		if cur.Name != "" {
			cand := clone(cur)
			cand.Name = ""
			progress = try(cand) || progress
		}
		if cur.Version != "" {
			cand := clone(cur)
			cand.Version = ""
			progress = try(cand) || progress
		}
		// benign replacements
		for _, k := range sortedKeys(cur.Requirements) {
			req := cur.Requirements[k]
			if _, taken := cur.Requirements[benKey]; k != benKey && !taken {
				cand := clone(cur)
				delete(cand.Requirements, k)
				cand.Requirements[benKey] = req
				if try(cand) {
					progress, k = true, benKey
				}
			}
			if req.Path != benPath {
				cand := clone(cur)
				cand.Requirements[k] = project.RequirementConfig{Path: benPath, Version: req.Version}
				if try(cand) {
					progress, req.Path = true, benPath
				}
			}
			if req.Version != benReqVersion {
				cand := clone(cur)
				cand.Requirements[k] = project.RequirementConfig{Path: req.Path, Version: benReqVersion}
				progress = try(cand) || progress
			}
		}
		for i := range cur.Ignore {
			if cur.Ignore[i] != benIgnore {
				cand := clone(cur)
				cand.Ignore[i] = benIgnore
				progress = try(cand) || progress
			}
		}
		if cur.Name != "" && cur.Name != benName {
			cand := clone(cur)
			cand.Name = benName
			progress = try(cand) || progress
		}
		if cur.Version != "" && cur.Version != benVersion {
			cand := clone(cur)
			cand.Version = benVersion
			progress = try(cand) || progress
		}
		// rune deletion
		progress = shrink(cur.Name, benName, func(c *project.Config, s string) bool { c.Name = s; return true }) || progress
		progress = shrink(cur.Version, benVersion, func(c *project.Config, s string) bool { c.Version = s; return true }) || progress
		for i := range cur.Ignore {
			i := i
			progress = shrink(cur.Ignore[i], benIgnore, func(c *project.Config, s string) bool { c.Ignore[i] = s; return true }) || progress
		}
		for _, k := range sortedKeys(cur.Requirements) {
			k := k
			if _, still := cur.Requirements[k]; !still {
				continue
			}
			progress = shrink(cur.Requirements[k].Path, benPath, func(c *project.Config, s string) bool {
				r := c.Requirements[k]
				r.Path = s
				c.Requirements[k] = r
				return true
			}) || progress
			progress = shrink(k, benKey, func(c *project.Config, s string) bool {
				if _, taken := c.Requirements[s]; taken {
					return false
				}
				r := c.Requirements[k]
				delete(c.Requirements, k)
				c.Requirements[s] = r
				return true
			}) || progress
		}
	}
	return cur, curRes
}

func isPlain(r rune) bool {
	return r >= 'A' && r <= 'Z' || r >= 'a' && r <= 'z' || r >= '0' && r <= '9' || r == '_' || r == '-'
}

// class names the character class of a (reduced) string.
func class(s string) string {
	if s == "" {
		return "empty"
	}
	ctl, quote, nonASCII, punct := false, false, false, false
	for _, r := range s {
		switch {
		case r < 0x20 || r == 0x7f:
			ctl = true
		case r == '\'' || r == '"' || r == '\\':
			quote = true
		case r >= 0x80:
			nonASCII = true
		case !isPlain(r):
			punct = true
		}
	}
	switch {
	case ctl:
		return "control-char"
	case quote:
		return "quote-or-backslash"
	case nonASCII:
		return "non-ascii"
	case punct:
		return "space-or-punctuation"
	}
	return "plain"
}

// culprits names what is left in a reduced configuration.
func culprits(c *project.Config) string {
	set := map[string]bool{}
	if c.Name != "" && c.Name != benName {
		set["name-"+class(c.Name)] = true
	}
	if c.Version != "" && c.Version != benVersion {
		set["version-"+class(c.Version)] = true
	}
	for _, s := range c.Ignore {
		if s != benIgnore {
			set["ignore-"+class(s)] = true
		}
	}
	for k, req := range c.Requirements {
		if k != benKey {
			set["reqkey-"+class(k)] = true
		}
		if req.Path != benPath {
			set["reqpath-"+class(req.Path)] = true
		}
		if req.Version != benReqVersion {
			set["reqversion"] = true
		}
	}
	if len(set) == 0 {
		// only benign values are left: the mere presence of these parts fails
		if c.Name != "" {
			set["name-benign"] = true
		}
		if c.Version != "" {
			set["version-benign"] = true
		}
		if len(c.Ignore) > 0 {
			set["ignore-benign"] = true
		}
		if len(c.Requirements) > 0 {
			set["requirement-benign"] = true
		}
		if len(set) == 0 {
			set["empty-config"] = true
		}
	}
	var l []string
	for k := range set {
		l = append(l, k)
	}
	sort.Strings(l)
	return strings.Join(l, "+")
}

// ---- display / replay --------------------------------------------------------------------------

type replayReq struct {
	Key     string `json:"key"`
	Path    string `json:"path"`
	Version string `json:"version"`
}

type replayCfg struct {
	Name         string      `json:"name"`
	Version      string      `json:"version"`
	Ignore       []string    `json:"ignore"`
	Requirements []replayReq `json:"requirements"`
}

type replay struct {
	Config    replayCfg `json:"config"`
	Kind      string    `json:"kind"`
	Detail    string    `json:"detail"`
	Written   string    `json:"written_file"`
	FirstSeen replayCfg `json:"unreduced_example"`
	Section   string    `json:"section"`
}

func toReplay(c *project.Config) replayCfg {
	rc := replayCfg{Name: c.Name, Version: c.Version, Ignore: append([]string{}, c.Ignore...), Requirements: []replayReq{}}
	for _, k := range sortedKeys(c.Requirements) {
		rc.Requirements = append(rc.Requirements, replayReq{k, c.Requirements[k].Path, c.Requirements[k].Version})
	}
	return rc
}

func fromReplay(rc replayCfg) project.Config {
	c := project.Config{Name: rc.Name, Version: rc.Version, Ignore: rc.Ignore}
	if len(rc.Requirements) > 0 {
		c.Requirements = map[string]project.RequirementConfig{}
		for _, q := range rc.Requirements {
			c.Requirements[q.Key] = project.RequirementConfig{Path: q.Path, Version: q.Version}
		}
	}
	return c
}

func show(c *project.Config) string {
	var b strings.Builder
	fmt.Fprintf(&b, "{Name:%q Version:%q Ignore:%q Requirements:{", c.Name, c.Version, c.Ignore)
	for i, k := range sortedKeys(c.Requirements) {
		if i > 0 {
			b.WriteString(", ")
		}
		fmt.Fprintf(&b, "%q:{%q %q}", k, c.Requirements[k].Path, c.Requirements[k].Version)
	}
	b.WriteString("}}")
	return b.String()
}

// stateKey is an injective encoding of a configuration (nil and empty identified).
func stateKey(c *project.Config) [32]byte {
	var b []byte
	b = strconv.AppendQuote(b, c.Name)
	b = strconv.AppendQuote(b, c.Version)
	b = append(b, '[')
	for _, s := range c.Ignore {
		b = strconv.AppendQuote(b, s)
	}
	b = append(b, ']', '{')
	for _, k := range sortedKeys(c.Requirements) {
		b = strconv.AppendQuote(b, k)
		b = strconv.AppendQuote(b, c.Requirements[k].Path)
		b = strconv.AppendQuote(b, c.Requirements[k].Version)
	}
	b = append(b, '}')
	return sha256.Sum256(b)
}

func size(c *project.Config) int {
	n := len(c.Name) + len(c.Version) + len(c.Ignore)
	for _, s := range c.Ignore {
		n += len(s)
	}
	for k, q := range c.Requirements {
		n += 1 + len(k) + len(q.Path) + len(q.Version)
	}
	return n
}

// quoting scans the written bytes: does a basic string contain a backslash escape, and is
// a key of the [requirements] table written quoted?
func quoting(b []byte) (escape, quotedKey bool) {
	inReq := false
	for _, line := range bytes.Split(b, []byte("\n")) {
		if bytes.Equal(line, []byte("[requirements]")) {
			inReq = true
			continue
		}
		if inReq && len(line) > 0 && (line[0] == '\'' || line[0] == '"') {
			quotedKey = true
		}
		state := byte(0)
		for i := 0; i < len(line); i++ {
			ch := line[i]
			switch state {
			case 0:
				if ch == '\'' || ch == '"' {
					state = ch
				}
			case '\'':
				if ch == '\'' {
					state = 0
				}
			case '"':
				if ch == '\\' {
					escape = true
					i++
				} else if ch == '"' {
					state = 0
				}
			}
		}
	}
	return
}

// ---- enumeration ---------------------------------------------------------------------------------

func allSeqs(alpha []string, maxLen int) []string {
	out := []string{""}
	level := []string{""}
	for n := 1; n <= maxLen; n++ {
		var next []string
		for _, p := range level {
			for _, a := range alpha {
				next = append(next, p+a)
			}
		}
		out = append(out, next...)
		level = next
	}
	return out
}

type section struct {
	name string
	n    int
	gen  func(i int) project.Config
}

func subsets(n, maxSize int) [][]int {
	var out [][]int
	var rec func(start int, cur []int)
	rec = func(start int, cur []int) {
		out = append(out, append([]int{}, cur...))
		if len(cur) == maxSize {
			return
		}
		for i := start; i < n; i++ {
			rec(i+1, append(cur, i))
		}
	}
	rec(0, nil)
	return out
}

func main() {
	r := vlib.Start("C19")
	if r.ReplayIn != "" {
		doReplay(r)
		return
	}

	alphabet := []string{"a", " ", "'", "\"", "\\", "\n", "\t", "\r", "\x00", "#", "=", "é", "\U0001F600"}
	maxSingle, maxPair := 3, 1
	if r.Thorough() {
		maxSingle, maxPair = 4, 2
	}
	singles := allSeqs(alphabet, maxSingle)
	pairStrs := allSeqs(alphabet, maxPair)
	embedStrs := allSeqs(alphabet, 2)

	var sections []section

	// (1) every string in one position, the rest benign
	for p := 0; p < nPos; p++ {
		p := p
		sections = append(sections, section{"single:" + posNames[p], len(singles), func(i int) project.Config {
			return build(map[int]string{p: singles[i]})
		}})
	}
	// (2) every pair of strings in every pair of positions
	np := len(pairStrs)
	for p := 0; p < nPos; p++ {
		for q := p + 1; q < nPos; q++ {
			p, q := p, q
			sections = append(sections, section{"pair:" + posNames[p] + "," + posNames[q], np * np, func(i int) project.Config {
				return build(map[int]string{p: pairStrs[i/np], q: pairStrs[i%np]})
			}})
		}
	}
	// (2b) two requirements whose keys are every unordered pair of distinct strings
	var keyPairs [][2]string
	for i := range pairStrs {
		for j := range pairStrs {
			if pairStrs[i] < pairStrs[j] {
				keyPairs = append(keyPairs, [2]string{pairStrs[i], pairStrs[j]})
			}
		}
	}
	sections = append(sections, section{"pair:reqkey,reqkey", len(keyPairs), func(i int) project.Config {
		c := build(nil)
		c.Requirements = map[string]project.RequirementConfig{
			keyPairs[i][0]: {Path: benPath, Version: benReqVersion},
			keyPairs[i][1]: {Path: "example.com/dep2@v2", Version: "v2.0.1"},
		}
		return c
	}})

	// (2c) every triple of positions with strings of length<=1; in thorough also all five positions at once
	oneStrs := allSeqs(alphabet, 1)
	n1 := len(oneStrs)
	for p := 0; p < nPos; p++ {
		for q := p + 1; q < nPos; q++ {
			for t := q + 1; t < nPos; t++ {
				p, q, t := p, q, t
				sections = append(sections, section{"triple:" + posNames[p] + "," + posNames[q] + "," + posNames[t], n1 * n1 * n1, func(i int) project.Config {
					return build(map[int]string{p: oneStrs[i/(n1*n1)], q: oneStrs[i/n1%n1], t: oneStrs[i%n1]})
				}})
			}
		}
	}
	if r.Thorough() {
		sections = append(sections, section{"all-five-positions", n1 * n1 * n1 * n1 * n1, func(i int) project.Config {
			over := map[int]string{}
			for p := 0; p < nPos; p++ {
				over[p] = oneStrs[i%n1]
				i /= n1
			}
			return build(over)
		}})
	}

	// (3) path forms x requirement versions (invalid ones are skipped and counted)
	pathPool := []string{"example.com/x", "example.com/x@v2", "a/b@v3", "a/b@v1", "a/b@v0", "x@v1", "x@v0", "x@v2", "x@v10", "x@v9", "x@v12", "x@v19", "x@v20", "x@v100", "reqs/dep@v12",
		"a//b", "a/./b", "a/", "/", "/a", ".", "..", "../a", "a/../b", "a/..", "a@v2/b", "a@v2/b@v3", "a@", "@v2", "a@v2@v3", "a@v1@v2", "a@v2@v1",
		"a@é", "a@ ", "a @v2", "a@v2 ", "a.b/c-d_e", "", "a", "A/B", "a/b/c/d/e@v99", "a@v2/", "a/@v2", "é/😀@v2", "a b/c d@v2", "a\\b", "a\\b@v2"}
	versionPool := []string{"v1.0.0", "v0.1.2", "v2.3.4-pre", "v0.0.0", "v1.2.3-rc.1", "v10.20.30", "v1.2.3-0.a-b", "v1.2.3+meta", "v1", "v1.2", "1.0.0", "", "v01.0.0", "v1.0.0-", "latest"}
	sections = append(sections, section{"pathforms", len(pathPool) * len(versionPool), func(i int) project.Config {
		c := build(nil)
		c.Requirements = map[string]project.RequirementConfig{benKey: {Path: pathPool[i/len(versionPool)], Version: versionPool[i%len(versionPool)]}}
		return c
	}})
	// (3a) every path made of <=5 (6) tokens of a small path grammar (most are not in clean form
	// and are skipped by the independent precondition; the clean ones include '@' in non-final
	// elements, dotted elements and versioned elements)
	ptoks := []string{"a", "b", "/", "@", ".", "v2", "v1"}
	plen := 5
	if r.Thorough() {
		plen = 6
	}
	gpaths := allSeqs(ptoks, plen)
	sections = append(sections, section{"pathgrammar", len(gpaths), func(i int) project.Config {
		c := build(nil)
		c.Requirements = map[string]project.RequirementConfig{benKey: {Path: gpaths[i], Version: "v2.0.1"}}
		return c
	}})
	// (3b) alphabet strings embedded in path shapes
	shapes := []func(string) string{
		func(s string) string { return "x/" + s + "@v2" },
		func(s string) string { return "x@" + s },
		func(s string) string { return s + "/y" },
		func(s string) string { return "a/" + s },
		func(s string) string { return s + "@v2" },
	}
	sections = append(sections, section{"pathembed", len(shapes) * len(embedStrs), func(i int) project.Config {
		return build(map[int]string{pReqPath: shapes[i/len(embedStrs)](embedStrs[i%len(embedStrs)])})
	}})

	// (4) 0..3 requirements at once
	keyPool := []string{"", "a", "a b", "\"", "é", "a.b", "1", "A", "a-b_c", "'", "a\"b", "\n", "\x00", "\U0001F600", "#", "=", "[a]", " ", "dep", "a.b.c", "\\"}
	reqSets := subsets(len(keyPool), 3)
	pvPool := []project.RequirementConfig{{"example.com/dep", "v1.0.0"}, {"example.com/x@v2", "v2.3.4-pre"}, {"a/b@v3", "v3.0.0"}, {"é\"'", "v0.1.2"}, {"a\nb", "v0.0.0"}}
	rot := 5
	sections = append(sections, section{"multireq", len(reqSets) * rot, func(i int) project.Config {
		c := build(nil)
		c.Requirements = nil
		set, o := reqSets[i/rot], i%rot
		if len(set) > 0 {
			c.Requirements = map[string]project.RequirementConfig{}
		}
		for j, k := range set {
			c.Requirements[keyPool[k]] = pvPool[(o+j*(1+o%2))%len(pvPool)]
		}
		return c
	}})

	// (5) ignore lists of 0..3 entries (ordered, repetitions allowed) + long lists
	ignPool := []string{"", "a", "*.tmp", "a'b", "\"", "\n", "é", "**/x", "#", "\x00", "\\", "a, b", "]", "'''", "\"\"\""}
	nIgn := len(ignPool)
	ignCount := 1 + nIgn + nIgn*nIgn + nIgn*nIgn*nIgn
	sections = append(sections, section{"ignorelists", ignCount + 2, func(i int) project.Config {
		c := build(nil)
		c.Ignore = nil
		switch {
		case i == 0:
		case i < 1+nIgn:
			c.Ignore = []string{ignPool[i-1]}
		case i < 1+nIgn+nIgn*nIgn:
			j := i - 1 - nIgn
			c.Ignore = []string{ignPool[j/nIgn], ignPool[j%nIgn]}
		case i < ignCount:
			j := i - 1 - nIgn - nIgn*nIgn
			c.Ignore = []string{ignPool[j/(nIgn*nIgn)], ignPool[j/nIgn%nIgn], ignPool[j%nIgn]}
		default:
			for k := 0; k < 200; k++ {
				if i == ignCount {
					c.Ignore = append(c.Ignore, fmt.Sprintf("dir%03d/**/*.generated.go", k))
				} else {
					c.Ignore = append(c.Ignore, ignPool[k%nIgn]+strings.Repeat("x", k%7))
				}
			}
		}
		return c
	}})

	// (6) presence / absence of every part (layout of the written file)
	var layouts []project.Config
	for _, name := range []string{"", benName, "n'\n"} {
		for _, ver := range []string{"", benVersion, "1\"\\"} {
			for _, ign := range [][]string{nil, {}, {benIgnore}, {"\"", ""}} {
				for nreq := 0; nreq <= 2; nreq++ {
					c := project.Config{Name: name, Version: ver, Ignore: ign}
					if nreq > 0 {
						c.Requirements = map[string]project.RequirementConfig{}
					}
					if nreq == 0 && len(ign) == 2 {
						c.Requirements = map[string]project.RequirementConfig{} // empty, non-nil
					}
					for k := 0; k < nreq; k++ {
						c.Requirements[[]string{benKey, "a b"}[k]] = pvPool[k]
					}
					layouts = append(layouts, c)
				}
			}
		}
	}
	sections = append(sections, section{"layout", len(layouts), func(i int) project.Config { return clone(layouts[i]) }})

	// (7) every ASCII character and selected other code points, alone and inside a word, in every position
	var sweep []string
	for c := rune(0); c < 0x80; c++ {
		sweep = append(sweep, string(c))
	}
	for _, c := range []rune{0x80, 0x85, 0x9f, 0xa0, 0xad, 0x2028, 0x2029, 0x200b, 0xfeff, 0xfffd, 0xd7ff, 0xe000, 0xffff, 0x10000, 0x10ffff, 0x301} {
		sweep = append(sweep, string(c))
	}
	nSweep := len(sweep)
	sections = append(sections, section{"charsweep", nSweep * 3 * nPos, func(i int) project.Config {
		p := i / (nSweep * 3)
		j := i % (nSweep * 3)
		s := sweep[j%nSweep]
		switch j / nSweep {
		case 1:
			s = "a" + s + "b"
		case 2:
			s = s + s
		}
		return build(map[int]string{p: s})
	}})

	// ---- run ----
	total := 0
	starts := make([]int, len(sections))
	for i, s := range sections {
		starts[i] = total
		total += s.n
	}
	nFiles := r.Workers + 4
	files := make(chan string, nFiles)
	for i := 0; i < nFiles; i++ {
		files <- filepath.Join(r.Scratch, fmt.Sprintf("c19-%02d.toml", i))
	}

	type failure struct {
		sig     string
		reduced project.Config
		res     result
		first   project.Config
		section string
		count   int64
	}
	var (
		mu        sync.Mutex
		seen      = map[[32]byte]struct{}{}
		fails     = map[string]*failure{}
		evals     atomic.Int64
		ops       atomic.Int64
		nontriv   atomic.Int64
		minRuns   atomic.Int64
		failCount atomic.Int64
		capped    atomic.Bool
		samples   = map[int]any{}
	)
	better := func(a *project.Config, b *project.Config) bool { // is a a smaller example than b
		if size(a) != size(b) {
			return size(a) < size(b)
		}
		return show(a) < show(b)
	}
	r.Parallel(total, func(i int) {
		if capped.Load() {
			return
		}
		if i%512 == 0 && r.Expired() {
			capped.Store(true)
			r.Cap("wall-clock budget")
			return
		}
		si := sort.Search(len(sections), func(k int) bool { return starts[k] > i }) - 1
		sec := sections[si]
		c := sec.gen(i - starts[si])
		if why := validReason(&c); why != "" {
			r.Add(why, 1)
			r.Add("section:"+sec.name+":skipped", 1)
			r.Outcome("outcome", why)
			return
		}
		key := stateKey(&c)
		mu.Lock()
		_, dup := seen[key]
		seen[key] = struct{}{}
		mu.Unlock()
		file := <-files
		res := run(&c, file)
		evals.Add(1)
		ops.Add(res.ops)
		r.Add("section:"+sec.name, 1)
		esc, qk := quoting(res.written)
		if !dup && (esc || qk) {
			nontriv.Add(1)
		}
		if res.kind == "ok" {
			files <- file
			r.Outcome("outcome", fmt.Sprintf("ok:escape=%v,quoted-key=%v,requirements=%d", esc, qk, min(len(c.Requirements), 2)))
			if i == starts[si]+sec.n/2 {
				mu.Lock()
				samples[si] = map[string]any{"section": sec.name, "config": toReplay(&c), "written_file": string(res.written), "result": "round trip ok"}
				mu.Unlock()
			}
			return
		}
		failCount.Add(1)
		var runs int64
		red, redRes := minimize(c, res.kind, file, &runs)
		files <- file
		minRuns.Add(runs)
		sig := "C19:" + redRes.kind + ":" + culprits(&red)
		r.Outcome("outcome", sig)
		mu.Lock()
		f := fails[sig]
		if f == nil {
			f = &failure{sig: sig, reduced: red, res: redRes, first: c, section: sec.name}
			fails[sig] = f
		} else if better(&red, &f.reduced) || (!better(&f.reduced, &red) && better(&c, &f.first)) {
			f.reduced, f.res, f.first, f.section = red, redRes, c, sec.name
		}
		f.count++
		mu.Unlock()
	})

	for _, name := range []string{"single:reqkey", "pair:name,reqpath", "pathembed", "multireq", "ignorelists", "charsweep"} {
		for si, s := range sections {
			if s.name == name && samples[si] != nil {
				r.Sample(samples[si])
			}
		}
	}
	var sigs []string
	for s := range fails {
		sigs = append(sigs, s)
	}
	sort.Strings(sigs)
	for _, s := range sigs {
		f := fails[s]
		what := fmt.Sprintf("%s: smallest failing config %s is written as %q: %s", f.res.kind, show(&f.reduced), f.res.written, f.res.detail)
		rp := replay{Config: toReplay(&f.reduced), Kind: f.res.kind, Detail: f.res.detail, Written: string(f.res.written), FirstSeen: toReplay(&f.first), Section: f.section}
		for k := int64(0); k < f.count; k++ {
			r.Violation(s, what, rp)
		}
	}

	secCounts := map[string]int{}
	for _, s := range sections {
		secCounts[s.name] = s.n
	}
	r.Extra["sections_generated"] = secCounts
	r.Extra["configurations_generated"] = total
	r.Extra["skipped_not_clean"] = r.Get("skipped-not-clean")
	r.Extra["skipped_not_canonical"] = r.Get("skipped-not-canonical")
	r.Extra["failing_configurations"] = failCount.Load()
	r.Extra["reduction_runs"] = minRuns.Load()
	r.Extra["outcome_classes"] = r.Outcomes("outcome")
	r.Extra["alphabet"] = alphabet
	r.Assumptions = []string{
		"valid configuration = every requirement version v has semver.IsValid(v) && semver.Canonical(v)==v and every requirement path p is in clean form by an independent definition (path.Clean of the part before a trailing @major, the @major kept unless it is empty, v0 or v1); others are generated, counted as skipped and not judged",
		"all strings are valid UTF-8 (TOML cannot carry other strings); control characters, quotes and arbitrary Unicode in every string and key are in scope",
		"nil and empty slices/maps are identified when comparing configurations",
		"files are written to a tmpfs scratch directory; I/O errors there are harness errors, not verdicts",
	}
	r.Finish(vlib.Coverage{
		Evaluations:        evals.Load(),
		DistinctNontrivial: nontriv.Load(),
		Rule: fmt.Sprintf("alphabet of %d symbols (letter, space, both quotes, backslash, LF, TAB, CR, NUL, #, =, 2-byte and 4-byte UTF-8); every string of length<=%d in each of name/version/ignore entry/requirement key/requirement path alone; every pair of strings of length<=%d in every pair of those positions and in two requirement keys; every triple of strings of length<=1 in every triple of positions (thorough: also all five positions at once); 47 path forms x 15 versions; every path of <=5 (6) tokens over {a,b,/,@,.,v2,v1}; strings of length<=2 embedded in 5 versioned-path shapes; every subset of <=3 of 21 requirement keys x 5 path/version assignments; every ordered ignore list of <=3 of 15 entries + two 200-entry lists; 108 presence/absence layouts; every ASCII character and 16 other code points alone/in a word/doubled in every position. Each valid configuration: write, load, compare, write again, compare bytes. Non-trivial = distinct configuration whose written file contains a backslash escape inside a basic string or a quoted requirement key",
			len(alphabet), maxSingle, maxPair),
		States:      int64(len(seen)),
		Transitions: ops.Load(),
		Exhaustive:  true,
		Outcomes:    r.NumOutcomes("outcome"),
		Bounds:      map[string]any{"alphabet": len(alphabet), "single_len": maxSingle, "pair_len": maxPair, "requirements_at_once": 3, "ignore_entries": 3, "embed_len": 2},
	})
}

func doReplay(r *vlib.Run) {
	b, err := os.ReadFile(r.ReplayIn)
	if err != nil {
		vlib.Fatalf("%v", err)
	}
	var in struct {
		Replay replay `json:"replay"`
	}
	if err := json.Unmarshal(b, &in); err != nil {
		vlib.Fatalf("bad replay file: %v", err)
	}
	c := fromReplay(in.Replay.Config)
	if why := validReason(&c); why != "" {
		vlib.Fatalf("replay configuration is outside the property's precondition: %s", why)
	}
	res := run(&c, filepath.Join(r.Scratch, "replay.toml"))
	fmt.Printf("config  %s\nwritten %q\nresult  %s %s\n", show(&c), res.written, res.kind, res.detail)
	if res.kind != "ok" {
		fmt.Printf("VIOLATION property=C19 replay=%s\n", r.ReplayIn)
		os.Exit(1)
	}
	os.Exit(0)
}

// refCleanPath is an independent statement of "clean form" (the precondition of the
// property must not be decided by the code under test): the part before a trailing "@major"
// (an '@' after the last '/') is cleaned lexically; the major is kept unless it is empty, v0
// or v1 - majors are compared as strings for equality only, never ordered.
func refCleanPath(p string) string {
	base, major := p, ""
	for i := len(p) - 1; i >= 0 && p[i] != '/'; i-- {
		if p[i] == '@' {
			base, major = p[:i], p[i+1:]
			break
		}
	}
	base = path.Clean(base)
	if major == "" || major == "v0" || major == "v1" {
		return base
	}
	return base + "@" + major
}
