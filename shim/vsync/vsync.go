// Package vsync mirrors the parts of package sync that dawn uses, with every blocking or
// order-sensitive operation routed through the vsched controlled scheduler. Outside a
// controlled execution the types behave as single-threaded state machines.
package vsync

import (
	"github.com/pgavlin/dawn/internal/verif/vsched"
)

type Locker interface {
	Lock()
	Unlock()
}

// Mutex ------------------------------------------------------------------------------------

type Mutex struct {
	o    vsched.Obj
	held bool
}

func (m *Mutex) Lock() {
	if m.o.Desc == "" {
		m.o.Desc = "mutex"
	}
	vsched.PointAt(vsched.KLock, &m.o, func() bool { return !m.held })
	if m.held && vsched.Active() {
		panic("vsync: Lock scheduled while held")
	}
	m.held = true
}

func (m *Mutex) TryLock() bool {
	vsched.PointAt(vsched.KLock, &m.o, nil)
	if m.held {
		return false
	}
	m.held = true
	return true
}

func (m *Mutex) Unlock() {
	if !m.held && vsched.Active() {
		panic("sync: unlock of unlocked mutex")
	}
	m.held = false
}

// RWMutex ----------------------------------------------------------------------------------

type RWMutex struct {
	o       vsched.Obj
	writer  bool
	readers int
}

func (m *RWMutex) Lock() {
	if m.o.Desc == "" {
		m.o.Desc = "rwmutex"
	}
	vsched.PointAt(vsched.KLock, &m.o, func() bool { return !m.writer && m.readers == 0 })
	m.writer = true
}

func (m *RWMutex) Unlock() {
	if !m.writer && vsched.Active() {
		panic("sync: Unlock of unlocked RWMutex")
	}
	m.writer = false
}

func (m *RWMutex) RLock() {
	if m.o.Desc == "" {
		m.o.Desc = "rwmutex"
	}
	vsched.PointAt(vsched.KRLock, &m.o, func() bool { return !m.writer })
	m.readers++
}

func (m *RWMutex) RUnlock() {
	if m.readers <= 0 && vsched.Active() {
		panic("sync: RUnlock of unlocked RWMutex")
	}
	m.readers--
}

func (m *RWMutex) RLocker() Locker { return rlocker{m} }

type rlocker struct{ m *RWMutex }

func (r rlocker) Lock()   { r.m.RLock() }
func (r rlocker) Unlock() { r.m.RUnlock() }

// Cond -------------------------------------------------------------------------------------

type waiter struct {
	signalled bool
}

type Cond struct {
	L       Locker
	o       vsched.Obj
	waiters []*waiter
}

func NewCond(l Locker) *Cond { return &Cond{L: l} }

func lockerFree(l Locker) func() bool {
	switch m := l.(type) {
	case *Mutex:
		return func() bool { return !m.held }
	case *RWMutex:
		return func() bool { return !m.writer && m.readers == 0 }
	case rlocker:
		return func() bool { return !m.m.writer }
	}
	panic("vsync: unsupported Locker for Cond")
}

func lockerAcquire(l Locker) {
	switch m := l.(type) {
	case *Mutex:
		m.held = true
	case *RWMutex:
		m.writer = true
	case rlocker:
		m.m.readers++
	}
}

// Wait follows sync.Cond's contract: atomically unlocks L and suspends; resumes only after a
// Signal/Broadcast (no spurious wake-ups), then re-locks L.
func (c *Cond) Wait() {
	if c.o.Desc == "" {
		c.o.Desc = "cond"
	}
	if !vsched.Active() {
		// single-threaded: waiting can never be satisfied
		vsched.PointAt(vsched.KCondWait, &c.o, nil) // panics with the abort sentinel while aborting
		panic("vsync: Cond.Wait outside a controlled execution would block forever")
	}
	w := &waiter{}
	c.waiters = append(c.waiters, w)
	c.L.Unlock()
	free := lockerFree(c.L)
	vsched.PointAt(vsched.KCondWait, &c.o, func() bool { return w.signalled && free() })
	lockerAcquire(c.L)
}

func (c *Cond) Signal() {
	if c.o.Desc == "" {
		c.o.Desc = "cond"
	}
	vsched.PointAt(vsched.KSignal, &c.o, nil)
	if len(c.waiters) == 0 {
		return
	}
	// sync.Cond does not specify which waiter wakes: explore every one.
	i := vsched.Choose(len(c.waiters))
	c.waiters[i].signalled = true
	c.waiters = append(c.waiters[:i:i], c.waiters[i+1:]...)
}

func (c *Cond) Broadcast() {
	if c.o.Desc == "" {
		c.o.Desc = "cond"
	}
	vsched.PointAt(vsched.KBroadcast, &c.o, nil)
	for _, w := range c.waiters {
		w.signalled = true
	}
	c.waiters = nil
}

// WaitGroup --------------------------------------------------------------------------------

type WaitGroup struct {
	o vsched.Obj
	n int
}

func (wg *WaitGroup) Add(delta int) {
	vsched.PointAt(vsched.KWGAdd, &wg.o, nil)
	wg.n += delta
	if wg.n < 0 && vsched.Active() {
		panic("sync: negative WaitGroup counter")
	}
}

func (wg *WaitGroup) Done() { wg.Add(-1) }

func (wg *WaitGroup) Wait() {
	if wg.o.Desc == "" {
		wg.o.Desc = "waitgroup"
	}
	vsched.PointAt(vsched.KWGWait, &wg.o, func() bool { return wg.n == 0 })
}

// Once -------------------------------------------------------------------------------------

type Once struct {
	m    Mutex
	done bool
}

func (o *Once) Do(f func()) {
	o.m.Lock()
	defer o.m.Unlock()
	if !o.done {
		defer func() { o.done = true }()
		f()
	}
}

// Map --------------------------------------------------------------------------------------

type Map struct {
	o vsched.Obj
	m map[any]any
}

func (m *Map) init() {
	if m.m == nil {
		m.m = map[any]any{}
		m.o.Desc = "syncmap"
	}
}

func (m *Map) Load(key any) (any, bool) {
	m.init()
	vsched.PointAt(vsched.KLoad, &m.o, nil)
	v, ok := m.m[key]
	return v, ok
}

func (m *Map) Store(key, value any) {
	m.init()
	vsched.PointAt(vsched.KStore, &m.o, nil)
	m.m[key] = value
}

func (m *Map) LoadOrStore(key, value any) (any, bool) {
	m.init()
	vsched.PointAt(vsched.KStore, &m.o, nil)
	if v, ok := m.m[key]; ok {
		return v, true
	}
	m.m[key] = value
	return value, false
}

func (m *Map) LoadAndDelete(key any) (any, bool) {
	m.init()
	vsched.PointAt(vsched.KStore, &m.o, nil)
	v, ok := m.m[key]
	delete(m.m, key)
	return v, ok
}

func (m *Map) Delete(key any) { m.LoadAndDelete(key) }

func (m *Map) Swap(key, value any) (any, bool) {
	m.init()
	vsched.PointAt(vsched.KStore, &m.o, nil)
	v, ok := m.m[key]
	m.m[key] = value
	return v, ok
}

func (m *Map) CompareAndSwap(key, old, new any) bool {
	m.init()
	vsched.PointAt(vsched.KStore, &m.o, nil)
	if v, ok := m.m[key]; ok && v == old {
		m.m[key] = new
		return true
	}
	return false
}

// Range iterates over a snapshot in insertion-independent (unspecified) order, like sync.Map.
func (m *Map) Range(f func(key, value any) bool) {
	m.init()
	vsched.PointAt(vsched.KLoad, &m.o, nil)
	type kv struct{ k, v any }
	var snap []kv
	for k, v := range m.m {
		snap = append(snap, kv{k, v})
	}
	for _, e := range snap {
		if !f(e.k, e.v) {
			return
		}
	}
}

// Chan ---------------------------------------------------------------------------------------
//
// Chan models a Go channel for code whose channel operations were rewritten by vtool
// (make(chan T, n) -> MakeChan[T](n), ch <- v -> ch.Send(v), <-ch -> ch.Recv(),
// v, ok := <-ch -> ch.Recv2(), close(ch) -> ch.Close()). select is not supported.
// An unbuffered send deposits the value and then waits until a receiver has taken it.

type Chan[T any] struct {
	o      vsched.Obj
	buf    []T
	cap    int
	closed bool
	taken  uint64 // number of values received so far
	sent   uint64 // number of values deposited so far
}

func MakeChan[T any](n ...int) *Chan[T] {
	c := &Chan[T]{}
	if len(n) > 0 {
		c.cap = n[0]
	}
	c.o.Desc = "chan"
	return c
}

func (c *Chan[T]) Send(v T) {
	if c == nil {
		vsched.PointAt(vsched.KCondWait, nil, func() bool { return false }) // a nil channel blocks forever
		return
	}
	room := c.cap
	if room == 0 {
		room = 1 // the rendezvous slot
	}
	vsched.PointAt(vsched.KStore, &c.o, func() bool { return c.closed || len(c.buf) < room })
	if c.closed {
		panic("send on closed channel")
	}
	c.buf = append(c.buf, v)
	c.sent++
	if c.cap == 0 {
		my := c.sent
		vsched.PointAt(vsched.KCondWait, &c.o, func() bool { return c.taken >= my || c.closed })
	}
}

func (c *Chan[T]) Recv2() (T, bool) {
	var zero T
	if c == nil {
		vsched.PointAt(vsched.KCondWait, nil, func() bool { return false })
		return zero, false
	}
	vsched.PointAt(vsched.KCondWait, &c.o, func() bool { return len(c.buf) > 0 || c.closed })
	if len(c.buf) == 0 {
		return zero, false
	}
	v := c.buf[0]
	c.buf = c.buf[1:]
	c.taken++
	return v, true
}

func (c *Chan[T]) Recv() T {
	v, _ := c.Recv2()
	return v
}

func (c *Chan[T]) Close() {
	if c == nil {
		panic("close of nil channel")
	}
	vsched.PointAt(vsched.KBroadcast, &c.o, nil)
	if c.closed && vsched.Active() {
		panic("close of closed channel")
	}
	c.closed = true
}

func (c *Chan[T]) Len() int { return len(c.buf) }
func (c *Chan[T]) Cap() int { return c.cap }
