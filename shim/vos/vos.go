// Package vos stands in for package os in the files of dawn that persist build state: every
// persistent effect (create/truncate, write, rename, mkdir, remove) is announced to the
// controlled scheduler first, so that a harness can observe the directory exactly as a
// process death at that instant would leave it. Everything else passes through to os.
package vos

import (
	"fmt"
	"io/fs"
	"os"
	"path/filepath"
	"sync/atomic"

	"github.com/pgavlin/dawn/internal/verif/vsched"
)

const PathSeparator = os.PathSeparator

type (
	FileInfo = fs.FileInfo
	FileMode = fs.FileMode
	DirEntry = fs.DirEntry
)

var ErrNotExist = os.ErrNotExist

var fsObj = vsched.Obj{Desc: "filesystem"}

// OnWrite, if set, is told about every Write before it happens (for torn-write states).
var OnWrite func(path string, data []byte)

var tempSeq atomic.Int64

// ResetTemp makes CreateTemp names deterministic per execution.
func ResetTemp() { tempSeq.Store(0) }

type File struct {
	*os.File
}

func wrap(f *os.File, err error) (*File, error) {
	if err != nil {
		return nil, err
	}
	return &File{f}, nil
}

var errDead = fmt.Errorf("process is dead")

func effect(desc string) bool {
	vsched.Effect(&fsObj, desc)
	return !vsched.Aborted()
}

func IsNotExist(err error) bool               { return os.IsNotExist(err) }
func IsExist(err error) bool                  { return os.IsExist(err) }
func Open(name string) (*File, error)         { return wrap(os.Open(name)) }
func Stat(name string) (FileInfo, error)      { return os.Stat(name) }
func Lstat(name string) (FileInfo, error)     { return os.Lstat(name) }
func ReadDir(name string) ([]DirEntry, error) { return os.ReadDir(name) }
func ReadFile(name string) ([]byte, error)    { return os.ReadFile(name) }
func Getwd() (string, error)                  { return os.Getwd() }

func Create(name string) (*File, error) {
	if !effect("create " + name) {
		return nil, errDead
	}
	return wrap(os.Create(name))
}

func CreateTemp(dir, pattern string) (*File, error) {
	if !effect("createtemp " + dir) {
		return nil, errDead
	}
	for {
		name := filepath.Join(dir, fmt.Sprintf("%stmp%06d", pattern, tempSeq.Add(1)))
		f, err := os.OpenFile(name, os.O_RDWR|os.O_CREATE|os.O_EXCL, 0o600)
		if os.IsExist(err) {
			continue
		}
		return wrap(f, err)
	}
}

func MkdirAll(path string, perm FileMode) error {
	if st, err := os.Stat(path); err == nil && st.IsDir() {
		return nil // nothing persistent happens
	}
	if !effect("mkdirall " + path) {
		return errDead
	}
	return os.MkdirAll(path, perm)
}

func Rename(oldpath, newpath string) error {
	if !effect("rename " + oldpath + " -> " + newpath) {
		return errDead
	}
	return os.Rename(oldpath, newpath)
}

func Remove(name string) error {
	if !effect("remove " + name) {
		return errDead
	}
	return os.Remove(name)
}

func RemoveAll(path string) error {
	if !effect("removeall " + path) {
		return errDead
	}
	return os.RemoveAll(path)
}

func WriteFile(name string, data []byte, perm FileMode) error {
	f, err := Create(name)
	if err != nil {
		return err
	}
	if _, err := f.Write(data); err != nil {
		f.Close()
		return err
	}
	return f.Close()
}

func (f *File) Write(b []byte) (int, error) {
	if OnWrite != nil && vsched.Active() {
		OnWrite(f.File.Name(), b)
	}
	if !effect(fmt.Sprintf("write %s (%d bytes)", f.File.Name(), len(b))) {
		return 0, errDead
	}
	return f.File.Write(b)
}

func (f *File) WriteString(s string) (int, error) { return f.Write([]byte(s)) }
