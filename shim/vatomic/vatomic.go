// Package vatomic mirrors the parts of sync/atomic that dawn uses; every operation is a
// scheduling point of the vsched controlled scheduler (sequentially consistent, as Go's are).
package vatomic

import (
	"github.com/pgavlin/dawn/internal/verif/vsched"
)

type Pointer[T any] struct {
	o vsched.Obj
	p *T
}

func (x *Pointer[T]) desc() {
	if x.o.Desc == "" {
		x.o.Desc = "atomic.Pointer"
	}
}

func (x *Pointer[T]) Load() *T {
	x.desc()
	vsched.PointAt(vsched.KLoad, &x.o, nil)
	return x.p
}

func (x *Pointer[T]) Store(v *T) {
	x.desc()
	vsched.PointAt(vsched.KStore, &x.o, nil)
	x.p = v
}

func (x *Pointer[T]) Swap(v *T) *T {
	x.desc()
	vsched.PointAt(vsched.KStore, &x.o, nil)
	old := x.p
	x.p = v
	return old
}

func (x *Pointer[T]) CompareAndSwap(old, new *T) bool {
	x.desc()
	vsched.PointAt(vsched.KStore, &x.o, nil)
	if x.p == old {
		x.p = new
		return true
	}
	return false
}

type Int32 struct {
	o vsched.Obj
	v int32
}

func (x *Int32) Load() int32       { vsched.PointAt(vsched.KLoad, &x.o, nil); return x.v }
func (x *Int32) Store(v int32)     { vsched.PointAt(vsched.KStore, &x.o, nil); x.v = v }
func (x *Int32) Add(d int32) int32 { vsched.PointAt(vsched.KStore, &x.o, nil); x.v += d; return x.v }
func (x *Int32) Swap(v int32) int32 {
	vsched.PointAt(vsched.KStore, &x.o, nil)
	o := x.v
	x.v = v
	return o
}
func (x *Int32) CompareAndSwap(old, new int32) bool {
	vsched.PointAt(vsched.KStore, &x.o, nil)
	if x.v == old {
		x.v = new
		return true
	}
	return false
}

type Int64 struct {
	o vsched.Obj
	v int64
}

func (x *Int64) Load() int64       { vsched.PointAt(vsched.KLoad, &x.o, nil); return x.v }
func (x *Int64) Store(v int64)     { vsched.PointAt(vsched.KStore, &x.o, nil); x.v = v }
func (x *Int64) Add(d int64) int64 { vsched.PointAt(vsched.KStore, &x.o, nil); x.v += d; return x.v }
func (x *Int64) Swap(v int64) int64 {
	vsched.PointAt(vsched.KStore, &x.o, nil)
	o := x.v
	x.v = v
	return o
}
func (x *Int64) CompareAndSwap(old, new int64) bool {
	vsched.PointAt(vsched.KStore, &x.o, nil)
	if x.v == old {
		x.v = new
		return true
	}
	return false
}

type Uint32 struct {
	o vsched.Obj
	v uint32
}

func (x *Uint32) Load() uint32        { vsched.PointAt(vsched.KLoad, &x.o, nil); return x.v }
func (x *Uint32) Store(v uint32)      { vsched.PointAt(vsched.KStore, &x.o, nil); x.v = v }
func (x *Uint32) Add(d uint32) uint32 { vsched.PointAt(vsched.KStore, &x.o, nil); x.v += d; return x.v }
func (x *Uint32) CompareAndSwap(old, new uint32) bool {
	vsched.PointAt(vsched.KStore, &x.o, nil)
	if x.v == old {
		x.v = new
		return true
	}
	return false
}

type Uint64 struct {
	o vsched.Obj
	v uint64
}

func (x *Uint64) Load() uint64        { vsched.PointAt(vsched.KLoad, &x.o, nil); return x.v }
func (x *Uint64) Store(v uint64)      { vsched.PointAt(vsched.KStore, &x.o, nil); x.v = v }
func (x *Uint64) Add(d uint64) uint64 { vsched.PointAt(vsched.KStore, &x.o, nil); x.v += d; return x.v }
func (x *Uint64) CompareAndSwap(old, new uint64) bool {
	vsched.PointAt(vsched.KStore, &x.o, nil)
	if x.v == old {
		x.v = new
		return true
	}
	return false
}

type Bool struct {
	o vsched.Obj
	v bool
}

func (x *Bool) Load() bool   { vsched.PointAt(vsched.KLoad, &x.o, nil); return x.v }
func (x *Bool) Store(v bool) { vsched.PointAt(vsched.KStore, &x.o, nil); x.v = v }
func (x *Bool) Swap(v bool) bool {
	vsched.PointAt(vsched.KStore, &x.o, nil)
	o := x.v
	x.v = v
	return o
}
func (x *Bool) CompareAndSwap(old, new bool) bool {
	vsched.PointAt(vsched.KStore, &x.o, nil)
	if x.v == old {
		x.v = new
		return true
	}
	return false
}

type Value struct {
	o vsched.Obj
	v any
}

func (x *Value) Load() any   { vsched.PointAt(vsched.KLoad, &x.o, nil); return x.v }
func (x *Value) Store(v any) { vsched.PointAt(vsched.KStore, &x.o, nil); x.v = v }
