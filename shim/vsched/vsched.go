// Package vsched is a cooperative, fully controlled scheduler for Go code whose
// synchronisation goes through the vsync/vatomic shims. Exactly one thread runs at a
// time; before every synchronisation operation the thread announces the operation and
// the scheduler decides who runs next. All scheduling decisions form a choice sequence
// that can be replayed exactly; the Explorer enumerates choice sequences.
package vsched

import (
	"fmt"
	"os"
	"runtime"
	"runtime/debug"
	"sort"
	"strings"
	"time"
)

type Kind uint8

const (
	KStart Kind = iota
	KLock
	KRLock
	KCondWait
	KSignal
	KBroadcast
	KLoad   // atomic / map read
	KStore  // atomic / map write or read-modify-write
	KWGAdd  // WaitGroup.Add/Done
	KWGWait // WaitGroup.Wait
	KOnce
	KSpawn
	KUser  // harness-declared access
	KUserW // harness-declared write access
	KEffect
	KExit
)

var kindNames = [...]string{"start", "lock", "rlock", "condwait", "signal", "broadcast", "load", "store", "wgadd", "wgwait", "once", "spawn", "user", "userw", "effect", "exit"}

func (k Kind) String() string { return kindNames[k] }

// Thread is one controlled goroutine.
type Thread struct {
	ID    string
	path  []int
	sem   chan struct{}
	done  bool
	nsp   int
	nops  int
	hash  uint64 // hash of this thread's own op/result history
	pKind Kind
	pObj  *Obj
	pEn   func() bool
	hasP  bool

	spinning bool             // the pending operation repeats on an unchanged object
	waitFor  map[*Thread]bool // kept back until each of these has stepped, blocked or finished
	recs     map[*Obj]*spinRec
	Log      []string
}

type spinRec struct {
	ver   uint64
	count int
}

// Obj is the scheduler-visible identity of a synchronisation object.
type Obj struct {
	name uint64 // assigned at first touch: hash(thread path, op index)
	seq  uint64 // rolling hash of the operations applied so far
	set  bool
	ver  uint64 // number of write-kind operations applied
	Desc string
}

// Point is one recorded decision.
type Point struct {
	N          int  // number of alternatives
	CurEnabled bool // the running thread could have continued (so alternatives != 0 are preemptions)
	Data       bool // data choice (e.g. which waiter Signal wakes): never a preemption
	Chosen     int
	Key        uint64 // happens-before state key at this point (before the decision)
	Pre        int    // preemptions used before this point
}

type Options struct {
	NumCPU   int
	Horizon  int                        // max scheduling steps per execution (0 = 20000)
	SpinK    int                        // consecutive same-object ops by one thread before it is marked yielding (0 = 40)
	LoadK    int                        // same for pure loads (0 = 6)
	LiveH    int                        // steps with only yielding threads enabled before declaring livelock (0 = 2000)
	Muted    bool                       // start muted: until Unmute() every decision is the default and is not a choice point
	Trace    bool                       // record per-thread op logs
	OnEffect func(idx int, desc string) // called at every persistent-effect point (vos), before the effect
}

type Result struct {
	Points   []Point
	Choices  []int
	Steps    int
	Preempt  int
	Deadlock string // non-empty: description of a deadlock
	Livelock string
	Panic    string // a thread panicked (value + stack)
	Threads  int
	FinalKey uint64
	Logs     map[string][]string
	Replayed int // length of the prefix that was replayed
	Effects  int
	Died     bool
}

type evKind int

const (
	evFinished evKind = iota
	evDeadlock
	evLivelock
	evPanic
)

type Sched struct {
	opt      Options
	threads  []*Thread
	cur      *Thread
	prefix   []int
	res      *Result
	ctl      chan evKind
	ack      chan struct{}
	aborting bool
	spin     int
	objs     []*Obj
	tick     uint64
	effects  int
}

var active *Sched

// Active reports whether a controlled execution is in progress.
func Active() bool { return active != nil && !active.aborting }

// NumCPU replaces runtime.NumCPU in instrumented code.
func NumCPU() int {
	if active != nil && active.opt.NumCPU > 0 {
		return active.opt.NumCPU
	}
	return runtime.NumCPU()
}

type abortPanic struct{}

func pathLess(a, b []int) bool {
	for i := 0; i < len(a) && i < len(b); i++ {
		if a[i] != b[i] {
			return a[i] < b[i]
		}
	}
	return len(a) < len(b)
}

func mix(h, x uint64) uint64 {
	h ^= x + 0x9e3779b97f4a7c15 + (h << 6) + (h >> 2)
	h *= 0xff51afd7ed558ccd
	h ^= h >> 33
	return h
}

func hashStr(s string) uint64 {
	h := uint64(1469598103934665603)
	for i := 0; i < len(s); i++ {
		h ^= uint64(s[i])
		h *= 1099511628211
	}
	return h
}

// Execute runs body as thread "0" under the scheduler, replaying prefix and then taking
// choice 0 everywhere. It returns when every thread finished or the execution was aborted.
func Execute(prefix []int, opt Options, body func()) *Result {
	if active != nil {
		panic("vsched: nested Execute")
	}
	if opt.Horizon == 0 {
		opt.Horizon = 20000
	}
	if opt.SpinK == 0 {
		opt.SpinK = 40
	}
	if opt.LoadK == 0 {
		opt.LoadK = 6
	}
	if opt.LiveH == 0 {
		opt.LiveH = 2000
	}
	s := &Sched{opt: opt, prefix: prefix, res: &Result{}, ctl: make(chan evKind, 1), ack: make(chan struct{})}
	active = s
	t0 := s.newThread(nil, body)
	s.cur = t0
	t0.sem <- struct{}{}
	var ev evKind
	select {
	case ev = <-s.ctl:
	case <-time.After(120 * time.Second):
		fmt.Fprintf(os.Stderr, "HARNESS-ERROR: vsched lost control (no scheduling point for 120s); current thread %v\n", s.cur.ID)
		buf := make([]byte, 1<<16)
		n := runtime.Stack(buf, true)
		os.Stderr.Write(buf[:n])
		os.Exit(2)
	}
	if ev != evFinished {
		// abort the parked threads one at a time
		s.aborting = true
		for _, t := range s.threads {
			if !t.done {
				t.sem <- struct{}{}
				<-s.ack
			}
		}
	}
	s.res.Threads = len(s.threads)
	s.res.FinalKey = s.key()
	s.res.Effects = s.effects
	if opt.Trace {
		s.res.Logs = map[string][]string{}
		for _, t := range s.threads {
			s.res.Logs[t.ID] = t.Log
		}
	}
	active = nil
	return s.res
}

func (s *Sched) newThread(parent *Thread, body func()) *Thread {
	t := &Thread{sem: make(chan struct{}, 1), recs: map[*Obj]*spinRec{}, waitFor: map[*Thread]bool{}}
	if parent == nil {
		t.path = []int{0}
	} else {
		t.path = append(append([]int{}, parent.path...), parent.nsp)
		parent.nsp++
	}
	parts := make([]string, len(t.path))
	for i, p := range t.path {
		parts[i] = fmt.Sprint(p)
	}
	t.ID = strings.Join(parts, ".")
	t.hash = hashStr(t.ID)
	s.threads = append(s.threads, t)
	sort.SliceStable(s.threads, func(i, j int) bool { return pathLess(s.threads[i].path, s.threads[j].path) })
	t.hasP, t.pKind = true, KStart
	go func() {
		<-t.sem
		defer func() {
			r := recover()
			if _, isAbort := r.(abortPanic); isAbort || (s.aborting && r != nil) {
				t.done = true
				s.ack <- struct{}{}
				return
			}
			if s.aborting {
				t.done = true
				s.ack <- struct{}{}
				return
			}
			if r != nil {
				s.res.Panic = fmt.Sprintf("thread %s panicked: %v\n%s", t.ID, r, debug.Stack())
				t.done = true
				s.ctl <- evPanic
				return
			}
			t.done = true
			s.exit(t)
		}()
		if s.aborting {
			panic(abortPanic{})
		}
		t.hasP = false
		body()
	}()
	return t
}

// Go replaces the go statement in instrumented code.
func Go(f func()) {
	s := active
	if s == nil {
		go f()
		return
	}
	if s.aborting {
		return
	}
	parent := s.cur
	PointAt(KSpawn, nil, nil)
	s.newThread(parent, f)
}

// enabledList returns the enabled threads in canonical order: the running thread first if
// it is enabled, then ascending thread path. A thread whose pending operation is a repeat
// on an unchanged object (a spin) is kept back until every thread that was enabled when it
// started spinning has stepped, blocked or finished (fair scheduling).
func (s *Sched) enabledList(cur *Thread) (list []*Thread, curEnabled bool) {
	var en, back []*Thread
	isEn := func(t *Thread) bool { return !t.done && t.hasP && (t.pEn == nil || t.pEn()) }
	for _, t := range s.threads {
		if !isEn(t) {
			continue
		}
		for u := range t.waitFor {
			if !isEn(u) {
				delete(t.waitFor, u)
			}
		}
		if len(t.waitFor) > 0 {
			back = append(back, t)
		} else {
			en = append(en, t)
		}
	}
	if len(en) == 0 {
		en = back
		for _, t := range back {
			for u := range t.waitFor {
				delete(t.waitFor, u)
			}
		}
	}
	for i, t := range en {
		if t == cur {
			curEnabled = true
			copy(en[1:i+1], en[:i])
			en[0] = t
			break
		}
	}
	return en, curEnabled
}

// Unmute ends the muted prelude of an execution (see Options.Muted).
func Unmute() {
	if active != nil {
		active.opt.Muted = false
	}
}

func (s *Sched) choose(n int, curEnabled, data bool) int {
	if s.opt.Muted {
		return 0
	}
	i := len(s.res.Points)
	c := 0
	if i < len(s.prefix) {
		c = s.prefix[i]
		if c < 0 || c >= n {
			fmt.Fprintf(os.Stderr, "HARNESS-ERROR: replay diverged at point %d: choice %d of %d alternatives (nondeterminism not owned)\n", i, c, n)
			os.Exit(2)
		}
		s.res.Replayed = i + 1
	}
	s.res.Points = append(s.res.Points, Point{N: n, CurEnabled: curEnabled, Data: data, Chosen: c, Key: s.key() ^ uint64(len(s.cur.path))*0x1234567 ^ s.cur.hash, Pre: s.res.Preempt})
	s.res.Choices = append(s.res.Choices, c)
	if curEnabled && !data && c != 0 {
		s.res.Preempt++
	}
	return c
}

// Choose is a data choice among n alternatives (not a thread switch).
func Choose(n int) int {
	s := active
	if s == nil || s.aborting || n <= 1 {
		return 0
	}
	return s.choose(n, false, true)
}

func (s *Sched) describeBlocked() string {
	var b strings.Builder
	for _, t := range s.threads {
		if t.done {
			continue
		}
		d := ""
		if t.pObj != nil {
			d = s.objName(t.pObj)
		}
		fmt.Fprintf(&b, "thread %s at %s %s; ", t.ID, t.pKind, d)
	}
	return b.String()
}

// objName is a schedule-deterministic name: kind and ordinal of first touch.
func (s *Sched) objName(o *Obj) string {
	for i, x := range s.objs {
		if x == o {
			return fmt.Sprintf("%s#%d", o.Desc, i)
		}
	}
	return o.Desc + "#untouched"
}

// next picks the next thread to run. cur may be done.
func (s *Sched) next(cur *Thread) *Thread {
	s.res.Steps++
	en, curEnabled := s.enabledList(cur)
	if len(en) == 0 {
		return nil
	}
	var nx *Thread
	if len(en) == 1 {
		nx = en[0]
	} else {
		nx = en[s.choose(len(en), curEnabled, false)]
	}
	return nx
}

func (s *Sched) allDone() bool {
	for _, t := range s.threads {
		if !t.done {
			return false
		}
	}
	return true
}

func (s *Sched) exit(t *Thread) {
	nx := s.next(t)
	if nx == nil {
		if s.allDone() {
			s.ctl <- evFinished
		} else {
			s.res.Deadlock = "deadlock: " + s.describeBlocked()
			s.ctl <- evDeadlock
		}
		return
	}
	s.cur = nx
	nx.sem <- struct{}{}
}

// PointAt is a scheduling point: the running thread announces an operation on obj that is
// enabled when en() is true (nil = always), and continues once it is scheduled.
func PointAt(kind Kind, obj *Obj, en func() bool) {
	s := active
	if s == nil {
		return
	}
	t := s.cur
	if s.aborting {
		if kind == KCondWait || kind == KWGWait {
			panic(abortPanic{})
		}
		return
	}
	t.pKind, t.pObj, t.pEn, t.hasP = kind, obj, en, true

	// fairness: count repeats of this thread on this object while the object is unchanged by
	// others; beyond the limit the operation is a spin and the thread is kept back.
	t.spinning = false
	if obj != nil {
		rec := t.recs[obj]
		if rec == nil {
			rec = &spinRec{ver: obj.ver}
			t.recs[obj] = rec
		}
		if rec.ver == obj.ver {
			rec.count++
		} else {
			rec.ver, rec.count = obj.ver, 1
		}
		lim := s.opt.SpinK
		if kind == KLoad || kind == KRLock || kind == KUser {
			lim = s.opt.LoadK
		}
		if rec.count > lim {
			t.spinning = true
			for _, u := range s.threads {
				if u != t && !u.done && u.hasP && (u.pEn == nil || u.pEn()) {
					t.waitFor[u] = true
				}
			}
		}
	}
	if s.res.Steps >= s.opt.Horizon {
		s.res.Livelock = fmt.Sprintf("horizon of %d steps reached: %s", s.opt.Horizon, s.describeBlocked())
		s.ctl <- evLivelock
		<-t.sem
		panic(abortPanic{})
	}
	if s.spin > s.opt.LiveH {
		s.res.Livelock = fmt.Sprintf("livelock: only spinning threads enabled for %d steps: %s", s.spin, s.describeBlocked())
		s.ctl <- evLivelock
		<-t.sem
		panic(abortPanic{})
	}
	nx := s.next(t)
	if nx == nil {
		s.res.Deadlock = "deadlock: " + s.describeBlocked()
		s.ctl <- evDeadlock
		<-t.sem
		panic(abortPanic{})
	}
	if nx != t {
		s.cur = nx
		nx.sem <- struct{}{}
		<-t.sem
		if s.aborting {
			panic(abortPanic{})
		}
	}
	// t performs the operation now
	t.hasP = false
	t.nops++
	for _, u := range s.threads {
		delete(u.waitFor, t)
	}
	if t.spinning {
		s.spin++
	} else {
		s.spin = 0
	}
	if obj != nil && !(kind == KLoad || kind == KRLock || kind == KUser) {
		obj.ver++
		if rec := t.recs[obj]; rec != nil {
			rec.ver = obj.ver
		}
	}
	if obj != nil {
		if !obj.set {
			obj.set = true
			obj.name = mix(t.hash, uint64(t.nops))
			s.objs = append(s.objs, obj)
		}
		obj.seq = mix(obj.seq, mix(t.hash, uint64(t.nops)<<8|uint64(kind)))
	}
	if s.opt.Trace {
		d := ""
		if obj != nil {
			d = s.objName(obj)
		}
		t.Log = append(t.Log, fmt.Sprintf("%s %s", kind, d))
	}
}

// Result feeds an operation's observed result into the thread's history hash (so that the
// state key distinguishes executions whose threads saw different values).
func Observe(v uint64) {
	s := active
	if s == nil || s.aborting {
		return
	}
	s.cur.hash = mix(s.cur.hash, v)
}

// key is the happens-before state key: per object the ordered operations applied to it,
// per thread how far it got.
func (s *Sched) key() uint64 {
	var k uint64
	for _, o := range s.objs {
		k += mix(o.name, o.seq) // commutative combination: object order is irrelevant
	}
	for _, t := range s.threads {
		d := uint64(0)
		if t.done {
			d = 1
		}
		k += mix(t.hash, uint64(t.nops)<<1|d)
	}
	return k
}

// Access declares a harness-level access to shared harness state (monitors, fake targets).
func Access(obj *Obj, write bool) {
	if write {
		PointAt(KUserW, obj, nil)
	} else {
		PointAt(KUser, obj, nil)
	}
}

// Effect is a persistent-effect point (vos): a crash may happen just before the effect.
func Effect(obj *Obj, desc string) {
	s := active
	if s == nil || s.aborting {
		return
	}
	PointAt(KEffect, obj, nil)
	if s.opt.OnEffect != nil {
		s.opt.OnEffect(s.effects, desc)
	}
	s.effects++
}

// CurrentID returns the running thread's id ("" outside a controlled execution).
func CurrentID() string {
	if active == nil {
		return ""
	}
	return active.cur.ID
}

// Aborted reports whether the current controlled execution is being torn down (deadlock,
// livelock, panic or simulated process death): effects must not be performed any more.
func Aborted() bool { return active != nil && active.aborting }

// Die simulates the death of the process at this instant: every thread is abandoned where it
// is (no further operation of the code under test takes effect).
func Die() {
	s := active
	if s == nil || s.aborting {
		return
	}
	t := s.cur
	s.res.Died = true
	s.ctl <- evPanic
	<-t.sem
	panic(abortPanic{})
}

// EffectCount returns the number of persistent effects performed so far in this execution.
func EffectCount() int {
	if active == nil {
		return 0
	}
	return active.effects
}
