package vsched

import (
	"fmt"
	"os"
	"time"
)

// Explorer enumerates choice sequences depth-first: Run(prefix) replays prefix and takes
// choice 0 afterwards; every alternative at every later point whose preemption cost fits
// the bound becomes a new prefix. With Prune, a prefix whose happens-before state key was
// already reached with no more preemptions spent is not extended (its futures are the
// futures of the earlier visit).
type Explorer struct {
	Bound    int // max preemptions; < 0 = unbounded
	Prune    bool
	MaxExecs int64
	Deadline time.Time
	Run      func(prefix []int) *Result
	Check    func(res *Result) bool // false = stop exploring

	Execs     int64
	PrunedAt  int64
	MaxPoints int
	MaxSteps  int
	Capped    string
	Stopped   bool
	seen      map[uint64]int
}

var debugExplore = os.Getenv("VERIF_DEBUG_EXPLORE") != ""

func (e *Explorer) Explore() {
	e.seen = map[uint64]int{}
	stack := [][]int{{}}
	for len(stack) > 0 {
		prefix := stack[len(stack)-1]
		stack = stack[:len(stack)-1]
		if e.MaxExecs > 0 && e.Execs >= e.MaxExecs {
			e.Capped = fmt.Sprintf("execution cap %d", e.MaxExecs)
			return
		}
		if !e.Deadline.IsZero() && e.Execs%64 == 0 && time.Now().After(e.Deadline) {
			e.Capped = "wall-clock budget"
			return
		}
		res := e.Run(prefix)
		e.Execs++
		if debugExplore && e.Execs%1000 == 0 {
			fmt.Fprintf(os.Stderr, "explore: execs=%d stack=%d points=%d steps=%d seen=%d\n", e.Execs, len(stack), len(res.Points), res.Steps, len(e.seen))
		}
		if res.Replayed < len(prefix) {
			fmt.Fprintf(os.Stderr, "HARNESS-ERROR: execution ended after %d points while replaying a prefix of %d (nondeterminism not owned)\n", len(res.Points), len(prefix))
			os.Exit(2)
		}
		if len(res.Points) > e.MaxPoints {
			e.MaxPoints = len(res.Points)
		}
		if res.Steps > e.MaxSteps {
			e.MaxSteps = res.Steps
		}
		if !e.Check(res) {
			e.Stopped = true
			return
		}
		cutoff := len(res.Points)
		if e.Prune {
			for i := len(prefix); i < len(res.Points); i++ {
				p := res.Points[i]
				if pre, ok := e.seen[p.Key]; ok && pre <= p.Pre {
					cutoff = i
					e.PrunedAt++
					break
				}
				e.seen[p.Key] = p.Pre
			}
		}
		for i := cutoff - 1; i >= len(prefix); i-- {
			p := res.Points[i]
			cost := p.Pre
			if p.CurEnabled && !p.Data {
				cost++
			}
			if e.Bound >= 0 && cost > e.Bound {
				continue
			}
			for alt := p.N - 1; alt >= 1; alt-- {
				np := make([]int, i+1)
				copy(np, res.Choices[:i])
				np[i] = alt
				stack = append(stack, np)
			}
		}
	}
}
