#!/usr/bin/env python3
"""Generates /verif/MANIFEST.json from the table below (kept in one place so that it stays valid)."""
import json, os
HERE = os.path.dirname(os.path.dirname(os.path.abspath(__file__)))
BASE_OFF = "cd /repo && GOFLAGS=-mod=mod GOPROXY=off GOSUMDB=off GOTOOLCHAIN=local go test -json -vet=off -count=1 -timeout 25m ./..."
checks = []
def add(pid, engine, technique, text, note, ref):
    checks.append({
        "property_id": pid,
        "quick_cmd": f"./check {pid} quick",
        "thorough_cmd": f"./check {pid} thorough",
        "evidence_file": f"evidence/{pid}.json",
        "replay_cmd_template": f"./check {pid} quick --replay {{path}}",
        "engine": engine,
        "level_claimed": {"category": "model_checking", "text": text, "design_ref": ref},
        "level_note": note,
        "technique": technique,
    })

add("C17", "enum", "bounded-exhaustive enumeration of pattern lists x paths vs reference matcher",
    "Every glob pattern of <=3 (quick) / <=4 (thorough) tokens over a 12-token alphabet and every ordered list of 0-3 patterns from a 60-pattern pool is compiled by the real CompileGlobs and matched against every path up to length 5/4 over a 6-letter alphabet; each answer is compared with an independent recursive (rune-aware) matcher; a non-ASCII family repeats this over multi-byte runes. Exhaustive inside those bounds.",
    "Trusts the reference matcher (35 lines) and Go's regexp; unescaped brackets are outside the stated semantics. The real consumers are driven too: glob() and os.glob() with every include list of 1-2 and exclude list of 0-1 (0-2) patterns of a 23-pattern pool on a generated tree, and dawn.toml ignore lists deciding which packages load, each compared with the reference over the whole tree.", "DESIGN.md section 5 C17")

SCHED_NOTE = "Trusts the vsched shim's model of sync.Mutex/RWMutex/Cond/WaitGroup/sync.Map/atomic (sequential consistency, no spurious wake-ups, Signal wakes any waiter), fair scheduling for termination, and data-race freedom of the instrumented files (free-running -race pass in the thorough tier). The code explored is the real file from /repo's working tree with only its sync imports and go statements redirected."
add("C04", "vsched", "stateless exploration of all thread interleavings of the real runner up to a preemption bound (HB-pruned), monitor oracle",
    "runner.Run is executed on every DAG with <=4 nodes x node behaviours (ok/failing/unknown, <=2 non-ok) x limits 1-3 (and split dependency requests, and a dependency named twice in one request); every interleaving with <=2 preemptions (quick; 1 for 4-node graphs) / <=3 and unbounded for <=3 nodes (thorough) is run to completion and a monitor checks at-most-once load/evaluate, dependencies finished before continuing, outcomes handed through exactly, Run's result = root's outcome.",
    SCHED_NOTE + " Further pass (hist engine, -prop C04): every real project build of the history search (partial builds, whole-project builds, a dependency listed under two spellings) is monitored for at-most-once execution and execution after dependencies. Free-running -race pass of the same scenario bodies in both tiers.", "DESIGN.md section 5 C04")
add("C05", "vsched", "stateless exploration of all thread interleavings of the real runner up to a preemption bound, deadlock/livelock detection under fair scheduling",
    "runner.Run on all directed graphs (self-loops included) on <=3 nodes plus selected 4-node graphs x limits 1-3, plus a 4-wide fan at limit 2 (two sleepers at the gate); every interleaving within the preemption bound; oracle: no deadlock, no livelock, cycle reachable => error + CyclicDependencyError handed out, acyclic => none.",
    SCHED_NOTE, "DESIGN.md section 5 C05")
add("C06", "vsched", "stateless exploration of all interleavings of the real dawn.Load (real Starlark) over generated load graphs, preemption-bounded with HB pruning",
    "dawn.Load runs on generated project trees realising a curated family of load graphs (shared helpers loading helpers, BUILD-loads-BUILD, self-loads, 2- and 3-cycles within and across loader goroutines, 2-4 packages, loads spelled by package label and relatively, helpers that cannot be loaded - unknown project, missing file - shared by several loaders) and all graphs with <=3 edges (2 packages) / <=2 edges (3 packages) up to symmetry in quick, <=3/<=4 in thorough; every interleaving of the loader goroutines within the preemption bound; oracle: each module executed at most once, no deadlock/livelock, acyclic => success with the expected targets and flags, cyclic => 'cyclic dependency' error, unloadable module => an error for every loader.",
    SCHED_NOTE, "DESIGN.md section 5 C06")
add("C09", "vsched", "stateless exploration of all thread interleavings of the real runner; concurrency monitor + maximum-over-all-executions oracle",
    "Same scenarios as C04 plus cyclic graphs and fans preceded by each special path (unknown, failing, cyclic, nested) at limits 1-3: a monitor counts targets executing outside EvaluateTargets and must never exceed the limit (vsched.NumCPU replaces runtime.NumCPU); every scenario completes at limit 1; over all explored interleavings of a fan the maximum concurrency must equal min(limit, width).",
    SCHED_NOTE, "DESIGN.md section 5 C09")
add("C20", "vsched", "exhaustive (unbounded) exploration of all interleavings of 2-3 colliding Cache.once callers, HB-pruned and cross-checked unpruned",
    "The real cache.go under the controlled scheduler: 2-3 threads x 1-2 once() calls over two keys x succeeding/failing callables with a scheduling point inside the callable; all interleavings without preemption bound; oracle: <=1 successful invocation per key, identical value for all callers, failures cache nothing, no deadlock.",
    SCHED_NOTE, "DESIGN.md section 5 C20")

add("C07", "enum", "bounded-exhaustive enumeration of values through the real encoder/decoder (and a batch-size-3 clone) vs a structural-isomorphism oracle",
    "Every integer in [-70000,70000] (thorough: +-2^21) and around 2^31/2^32/2^63/2^64, float classes, strings/bytes at every length class x 6 content classes, all containers of 0-3 (thorough 0-4) elements over 12 leaves nested to depth 2 (3), batch boundaries flat/self-containing/nested at 15 host positions for the real batch size 1000 and for a build-time clone of the package with batch size 3, all 4096 aliasing graphs over 3 mutable containers per kind combination, alias graphs through a re-entrant host pickler, and values with 255/256/257 and 65535/65536/65537 memoised objects referenced on both sides of the memo-id width boundary are encoded and decoded by the real codec; the result must be isomorphic to the input in Go type, structure, contents and sharing of mutable containers.",
    "Trusts the isomorphism oracle (90 lines). Sharing of tuples/scalars is unobservable in Starlark and not compared. The clone differs from /repo/pickle only in the literal 1000 -> 3 (vtool -clone).", "DESIGN.md section 5 C07")

add("C12", "enum", "bounded-exhaustive enumeration of label strings and (package, path) pairs vs a component-stack reference",
    "label.Parse on every string of length <=7 (quick) / <=8 (thorough) over {a,b,:,/,.,@}; for every accepted label with a name or without a kind: print/re-parse identity, global canonical-print table (equal prints <=> equal labels), the same after RelativeTo against three packages and six non-canonical spellings of them (error or the canonical spelling's result); repoSourcePath/sourceLabel on every path of length <=8 (<=10) over {a,/,.,:} against three packages compared with a component-stack resolver (accepted => resolves inside the root at the reference location; escaping => rejected). The record path derived from every accepted label (targets and sources) must stay below the build-state directory and be injective over the whole enumerated set. No panics anywhere.",
    "Trusts the reference resolver and the field-wise label equality; lexical confinement only (symlinks out of scope, as in the code).", "DESIGN.md section 5 C12")
add("C15", "enum", "bounded-exhaustive enumeration of byte strings and single-fault corruptions through the real decoder; fault enumeration over record files through Load/Run",
    "All byte strings of length <=3 over all 256 values (16.8M), all strings of length 4 (5) over 38 opcode/operand bytes, all opcode sequences of <=5 (6) operations over a 27-op core (incl. explicit-id memo opcodes), and every truncation/deletion/substitution/insertion of six valid encodings (including two real function environments), each decoded with no unpickler and with dawn's environment unpickler: Decode must return, never panic, never return (nil,nil), and the value must be printable/hashable/freezable/comparable. Record-file corruptions through Load/Run are enumerated by the same harness (file bytes, structural edits of the recorded environment, single bytes of the environment encoding). Towers of shared tuples (6 bytes per level) are decoded as value / dict key / set element in child processes under a 20 s hang guard.",
    "Precondition of the property honoured conservatively (inputs with a 4-byte length field larger than the input are skipped and counted). Two open known findings: decoding time exponential in the input for shared tuples used as dict key / set element (known_findings.json).", "DESIGN.md section 5 C15")
add("C19", "enum", "bounded-exhaustive enumeration of configurations, round-trip oracle",
    "Every string of length <=3 (<=4 thorough) over a 13-symbol alphabet (quotes, backslash, newline, tab, CR, NUL, #, =, non-ASCII) in each field separately, all pairs/triples of fields with shorter strings, every ASCII character in every field, path x version tables incl. versioned paths, every path of <=5 (6) tokens over {a,b,/,@,.,v2,v1}, all subsets of <=3 of 21 requirement keys, ignore lists: WriteConfigFile then LoadConfigFile must give back the configuration, and writing it again identical bytes, also when written over an existing longer file. Failing configurations are delta-debugged to a cause signature.",
    "Valid configurations only (canonical semver versions, clean paths), as the property quantifies.", "DESIGN.md section 5 C19")

add("C16", "enum", "bounded-exhaustive enumeration of value pairs through the real Diff (and a route-limit-4 build), edit-script replay oracle",
    "All ordered pairs of int sequences over {0,1,2} of length <=4 (5) as lists/tuples/mixed, binary lists to length 6 (8), strings and bytes over {a,b,c} to length 4 (5), nested sequences, all pairs of dicts over 3 keys x 6 (9) values incl. None, a cross-type pool incl. numerically equal int/float pairs, deep chains, and real-size pairs that cross the 2,000,000-point route limit; second pass on a build with the route limit scaled to 4. Oracle: nil diff <=> starlark.Equal; Old()/New() are the arguments in order; replaying the edits rebuilds old and new (recursively through nested diffs); mapping diffs have an edit exactly for added/removed/changed keys.",
    "Trusts the replay oracle and starlark.Equal. The scaled pass differs from /repo only in defaultRouteSize (vtool -const). Third pass (c08 harness, -as C16): after every single edit of every generated program the rebuild reason must name exactly the environment parts that differ (the property's last clause), including programs with self-referential data.", "DESIGN.md section 5 C16")

HIST_NOTE = "Trusts the reference model (what each target's latest successful execution consumed) and the project shape's input map; every build is a fresh dawn.Load + Run through the public API on a real directory (tmpfs); intra-build thread schedule is the Go runtime's (schedules are C04/C05/C09's); execution identifiers in records are alpha-renamed for state de-duplication because dawn only compares them for equality."
add("C01", "hist", "explicit-state BFS over all edit/build histories up to a depth on real project directories; currency model + differential against a from-scratch build",
    "Breadth-first search over every sequence of <=5 operations (quick; 15-operation alphabet: source, directory-rename/add, constant across pickle width classes, default, helper code, closure, dependency edge, failing body, deleted declared output, full and partial builds) / <=8 over the full 31-operation alphabet within the budget (thorough), de-duplicated on canonical state. After every successful build every target in the closure must be current per the reference model (environment, source contents incl. directory entry names, declared outputs, latest executions of dependencies) and the produced files must equal those of a from-scratch build of the same tree. Focused searches (small alphabets, depth 5-8) add reverts through partial builds, links in source directories, edits between values that are equal under == (1/1.0, dict order), and builds interrupted by real process death inside a body.",
    HIST_NOTE + " Further pass (c08 harness, -as C01): for every program of the C08 feature grammar and every listed single edit of a referenced value, the target must be re-executed (incl. an alias re-pointed among 300 objects across the 1-byte reference-id boundary).", "DESIGN.md sections 3, 5 C01, 12.2")
add("C02", "hist", "explicit-state BFS over all histories; minimality oracle (every executed target needs a reason the property recognises)",
    "Same search with an alphabet of neutral edits (comment/blank/docstring edits in three files, out-of-closure source, other package's target added/removed, undeclared output deleted, same-content re-creation of every file on every transition, dry runs, GC) mixed with real edits and partial builds: in every reachable state a target that is current by the model and none of whose dependencies executes must not execute.",
    HIST_NOTE + " Minimality is not asserted for a target after an edit to the code of its own build file (the property promises it for comment edits and for other packages' build files; such executions are counted). Second pass: dawn.Load under the controlled scheduler (c06 harness, -as C02): under every explored interleaving of the package/module loads the fingerprint of every target must equal the one of the first interleaving. Process-restart independence (another OS process) is exercised by C08's harness.", "DESIGN.md sections 3, 5 C02")
add("C13", "hist", "explicit-state BFS with dry runs at every position; twin real build from the same state",
    "Dry runs of two targets are operations of the BFS (depth <=6 quick): a dry run must execute no body, leave the directory byte-identical to what Load left, report exactly the targets the real build of the same state attempts (superset limited to downstream of the failure when the real build fails), and Build-after-Dry must equal Build directly (executed set and resulting state). A focused search adds dry runs after builds interrupted by real process death.",
    HIST_NOTE, "DESIGN.md section 5 C13")
add("C14", "hist", "explicit-state BFS with GC (full and index-preferred load) at every position; twin continuation with/without GC",
    "GC in both load modes, and Run followed by GC on one loaded Project, are operations of the BFS, with target removal/addition (incl. a target whose record name extends another's), stray files and failing builds in the alphabet: records of live labels stay byte-identical, afterwards .dawn/build holds only index.json, an empty temp/ and live records, nothing outside changes, and builds of three targets from the post-GC and pre-GC states execute the same sets.",
    HIST_NOTE, "DESIGN.md section 5 C14")
add("C18", "hist", "explicit-state BFS; per-label event automaton on every build of every reachable state",
    "Every build (incl. failing, always and dry builds) of the BFS is monitored: per label UpToDate | Evaluating Print* (Succeeded|Failed) | lone Failed only for missing/cyclic dependency; Prints only inside; exactly one RunDone, last, carrying Run's error; Evaluating <=> the body ran, and in a dry run <=> the real build of the same state runs it.",
    HIST_NOTE + " The same run enumerates every text over {x, newline} of length <=7 (10) x every cut into chunks, written from a real target body through a fresh and through a reused buffer: the delivered lines must be the text's lines, once, between Evaluating and completion. A record-write fault caused by a body (temp directory removed) is in the alphabet. Second pass (binary with the root package and runner under vsched): 8 build scenarios incl. missing dependency and dependency cycle, every interleaving of Project.Run with 0 (quick) / 1 (thorough) preemptions, same protocol oracle plus line delivery of chatty bodies.", "DESIGN.md section 5 C18")

add("C03", "hist+vsched+vos", "enumeration of every crash point between persistent effects (plus torn in-place writes) of real builds under the controlled scheduler, then BFS of recovery histories",
    "For 11 (quick) / 28 (thorough) pre-state histories x 3 build targets the real Load+Run executes under the controlled scheduler with os redirected to an effect-announcing shim: the directory at each of the ~20-60 effect points (record temp create/write/rename, mkdir, index truncate/write, each emit of a two-step body) and each torn prefix of in-place writes is a crash state (quick: default linearisation; thorough: all schedules with <=1 preemption, capped). From every distinct crash state: Load must succeed with and without the index, and a breadth-first search of depth 2 (3) over builds and edits must end every successful build with a current closure (unfinished/failed executions count as not executed) and outputs equal to a from-scratch build. Failure patterns of bodies are in the pre-states and alphabet.",
    HIST_NOTE + " Crash model = process death (no power-loss reordering), as the property states.", "DESIGN.md sections 3.4, 5 C03")

add("C08", "enum", "bounded-exhaustive enumeration of BUILD-file programs from a feature grammar (singles + pairs) through the real loader in worker processes; fingerprint equality/inequality oracle",
    "About 75 features (every value kind incl. cyclic and >1000-element data, defaults, closures, nested defs/lambdas, helpers in the same/loaded/second-level module, direct, mutual and loaded recursion, self-reference, other target objects, every predeclared kind, bound methods, flags, varargs, keyword-only parameters, values equal under == but distinguishable, an alias re-pointed among 300 referenced objects) alone and in pairs (quick: a quarter of the pairs): each program is loaded twice at different roots (and in another OS process), its function environment must be computed without error or crash, be equal across loads with byte-equal encodings, differ after each of its listed single edits; build + rebuild executes once then nothing; after each edit the rebuild reason must name exactly the environment parts that differ.",
    "A dead worker (Go's stack overflow is fatal) is attributed to the program it was loading. The fingerprint is the encoding stored in the record: an edit is detected iff the encodings differ.", "DESIGN.md section 5 C08")

add("C10", "enum", "bounded-exhaustive enumeration of requirement universes x root sets through the real resolver (fake in-package dialer), reachability+max reference",
    "All universes of 2 projects x 2 versions + 1 (quick; plus split-repository and two-major families) / 3x2, 2x3 and majors families (thorough, time-bounded) in which every (project, version) requires at most one version of every other project, x every root set with at most one version per project: BuildList on a cold cache, again on the same resolver, with a new resolver on the warm cache, with root names renamed and with declaration/tag order reversed must all equal the reference (breadth-first reachability over requirement edges, semver maximum per path); the resolver must download only reachable nodes. Further families: fetches interrupted after k files (child processes really die; parked-download interleavings), duplicate root names, and projects in sub-directories of one repository with pseudo-versions.",
    "Trusts the reference and the fake repository (dawn.toml files materialised in a tmpfs cache through the package's own Dialer seam). The third-party mvs library's goroutines run free; every universe is resolved five times and all answers must agree.", "DESIGN.md section 5 C10")
add("C11", "enum", "bounded-exhaustive enumeration of universes x root sets x operation sequences (depth 2/3) as a memoised state graph, re-resolved against the reference",
    "Over 12.6k universes (quick) in 9 families x root sets x {Tidy, UpgradeAll, Get by path/latest/upgrade/patch/exact/range prefix/>/>=/</<=/branch/revision/major} x all sequences of length <=2 (3 thorough): Tidy keeps the build list; an upgrade puts the resolved version in the build list and lowers nothing; a downgrade leaves the project at or below the request; surviving names are unchanged and new ones unique; repeating an operation on its own result changes nothing; a non-canonical spelling of a project path in a query gives an error or exactly the canonical spelling's result. Every operation runs under a 10 s hang guard in worker processes.",
    "Query resolution is compared with an independent reference only where the code's own comments fix the meaning (closest tagged ancestor for refs; vX.Y as a lower-bound range). Three open known findings (non-idempotent Get in self-conflicting universes) are listed in known_findings.json.", "DESIGN.md section 5 C11")

NA = {
}
for i in range(1, 21):
    pid = f"C{i:02d}"
    if pid not in [c["property_id"] for c in checks] and pid not in NA:
        NA[pid] = "check not built yet in this session (work in progress; design in DESIGN.md section 5)"

m = {
  "version": 1,
  "setup_cmd": "./setup.sh",
  "hooks": {
    "guard": "verif",
    "enable": "none in /repo: instrumentation is injected at build time by `go build -overlay` generated by bin/vtool from the current working tree (see DESIGN.md section 8)",
    "baseline_off_cmd": BASE_OFF,
    "source_commits": [],
    "add_only": True,
  },
  "engines": [
    {"name": "vsched", "path": "shim/", "serves_properties": ["C04","C05","C06","C09","C20","C02","C18"], "kind_free_text": "hand-written cooperative scheduler + stateless DFS with preemption bounding over the real code, via import-rewriting overlay"},
    {"name": "hist", "path": "harness/hist", "serves_properties": ["C01","C02","C03","C13","C14","C18"], "kind_free_text": "explicit-state BFS over build histories on real project directories with a reference currency model"},
    {"name": "enum", "path": "harness/", "serves_properties": ["C07","C08","C10","C11","C12","C15","C16","C17","C19"], "kind_free_text": "bounded-exhaustive input enumeration against reference models"},
  ],
  "checks": checks,
  "not_applicable": [{"property_id": k, "reason": v} for k, v in sorted(NA.items())],
  "notes": "All checks rebuild from /repo's working tree through an overlay; exit 0 held / 1 VIOLATION / 2 harness error. known_findings.json lists fixed and open findings.",
}
json.dump(m, open(os.path.join(HERE, "MANIFEST.json"), "w"), indent=1)
print("checks:", len(checks), "not_applicable:", len(NA))
