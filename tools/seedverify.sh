#!/bin/bash
# tools/seedverify.sh <agent-out-dir> <seed-id> <property> "<needs>"
# Confirms an independently produced change in a scratch worktree of /repo's HEAD:
#   patch applies; go build + the whole existing suite pass with it; the demonstration fails
#   with it and passes without it. On success the change is stored as /verif/seeded/<seed-id>/.
set -u
SRC=${1:?}; ID=${2:?}; PROP=${3:?}; NEEDS=${4:-}
export GOFLAGS=-mod=mod GOPROXY=off GOSUMDB=off GOTOOLCHAIN=local
VERIF=$(cd "$(dirname "$0")/.." && pwd)
WT=/tmp/wtv/$ID
rm -rf "$WT"; git -C /repo worktree prune; git -C /repo worktree add -q --detach "$WT" HEAD || exit 2
cleanup() { git -C /repo worktree remove --force "$WT" 2>/dev/null; }
trap cleanup EXIT
cd "$WT"
git apply "$SRC/patch.diff" || { echo "RESULT $ID patch-does-not-apply"; exit 1; }
go build ./... || { echo "RESULT $ID does-not-build"; exit 1; }
if ! go test -vet=off -count=1 ./... > /tmp/wtv/$ID.suite.txt 2>&1; then echo "RESULT $ID existing-suite-fails"; tail -5 /tmp/wtv/$ID.suite.txt; exit 1; fi
# place the demonstration
DEMOS=$(ls "$SRC"/*_test.go 2>/dev/null)
if [ -z "$DEMOS" ]; then echo "RESULT $ID no-test-demo (handle manually: $(ls $SRC))"; exit 3; fi
for f in $DEMOS; do
  pkg=$(grep -m1 '^package ' "$f" | awk '{print $2}')
  case "$pkg" in
    dawn|dawn_test) dir=. ;;
    pickle|pickle_test) dir=pickle ;; runner|runner_test) dir=runner ;; diff|diff_test) dir=diff ;; label|label_test) dir=label ;;
    util|util_test) dir=util ;; mvs|mvs_test) dir=internal/mvs ;; project|project_test) dir=internal/project ;; os|os_test) dir=lib/os ;; main) dir=cmd/dawn ;;
    *) echo "RESULT $ID unknown-demo-package $pkg"; exit 3 ;;
  esac
  cp "$f" "$dir/"; DEMODIR=$dir
done
timeout 600 go test -vet=off -count=1 ./$DEMODIR/ > /tmp/wtv/$ID.with.txt 2>&1; WITH=$?
git apply -R "$SRC/patch.diff"
timeout 600 go test -vet=off -count=1 ./$DEMODIR/ > /tmp/wtv/$ID.without.txt 2>&1; WITHOUT=$?
echo "RESULT $ID demo-with-change-exit=$WITH demo-without-change-exit=$WITHOUT"
if [ $WITH -ne 0 ] && [ $WITHOUT -eq 0 ]; then
  mkdir -p "$VERIF/seeded/$ID"
  cp "$SRC/patch.diff" "$VERIF/seeded/$ID/"; cp $DEMOS "$VERIF/seeded/$ID/"; [ -f "$SRC/README.md" ] && cp "$SRC/README.md" "$VERIF/seeded/$ID/"
  python3 - "$VERIF/seeded/$ID/meta.json" "$PROP" "$NEEDS" "$DEMODIR" <<'PY'
import json,sys
json.dump({"property":sys.argv[2],"needs_to_manifest":sys.argv[3],"demo_dir":sys.argv[4],
 "confirmed":"tools/seedverify.sh in a scratch worktree of /repo HEAD: patch applies, go build ./... ok, go test ./... (whole existing suite) passes with the change, demonstration test fails with the change and passes without it",
 "detected_by":[]}, open(sys.argv[1],"w"), indent=1)
PY
  echo "STORED $VERIF/seeded/$ID"
else
  tail -5 /tmp/wtv/$ID.with.txt
fi
