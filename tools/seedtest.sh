#!/bin/bash
# tools/seedtest.sh <seeded-dir> [check-id...]  — apply a seeded change to /repo, run the given
# checks (default: the property in meta.json) in the quick tier without touching evidence,
# print one line per check, and restore /repo. Never leaves /repo modified.
set -u
D=${1:?seeded dir}; shift
VERIF=$(cd "$(dirname "$0")/.." && pwd)
IDS=("$@")
if [ ${#IDS[@]} -eq 0 ]; then IDS=($(python3 -c "import json,sys; print(json.load(open('$D/meta.json'))['property'])")); fi
if [ -n "$(git -C /repo status --porcelain)" ]; then echo "refusing: /repo is not clean" >&2; exit 2; fi
git -C /repo apply "$D/patch.diff" || { echo "patch does not apply" >&2; exit 2; }
trap 'git -C /repo checkout -- . ; git -C /repo clean -fdq' EXIT
TIER=${SEED_TIER:-quick}
for ID in "${IDS[@]}"; do
  OUT=$(cd "$VERIF" && ./check "$ID" "$TIER" -evidence /dev/null -replays /dev/shm/seedtest-replays 2>&1); RC=$?
  SIGS=$(echo "$OUT" | grep -o 'signature=[^ ]*' | sort -u | tr '\n' ' ')
  echo "$(basename "$D") check=$ID tier=$TIER exit=$RC $SIGS"
  [ $RC -eq 2 ] && echo "$OUT" | tail -5
done
rm -rf /dev/shm/seedtest-replays
