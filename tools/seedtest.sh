#!/bin/bash
# tools/seedtest.sh <seeded-dir> [check-id...]  — apply a seeded change to a scratch worktree of
# /repo's HEAD, run the given checks (default: the property in meta.json) against it without
# touching evidence, print one line per check, and remove the worktree. /repo is never modified.
# (SEED_INPLACE=1 applies the patch to /repo itself instead and restores it afterwards.)
set -u
D=$(cd "${1:?seeded dir}" && pwd); shift
VERIF=$(cd "$(dirname "$0")/.." && pwd)
IDS=("$@")
if [ ${#IDS[@]} -eq 0 ]; then IDS=($(python3 -c "import json,sys; print(json.load(open('$D/meta.json'))['property'])")); fi
if [ "${SEED_INPLACE:-0}" = 1 ]; then
  R=/repo
  if [ -n "$(git -C /repo status --porcelain)" ]; then echo "refusing: /repo is not clean" >&2; exit 2; fi
  trap 'git -C /repo checkout -- . ; git -C /repo clean -fdq' EXIT
else
  R=$(mktemp -d /tmp/seedrepo.XXXXXX); rmdir "$R"
  git -C /repo worktree add -q --detach "$R" HEAD || exit 2
  trap 'git -C /repo worktree remove --force "$R"' EXIT
fi
git -C "$R" apply "$D/patch.diff" || { echo "patch does not apply" >&2; exit 2; }
TIER=${SEED_TIER:-quick}
for ID in "${IDS[@]}"; do
  OUT=$(cd "$VERIF" && VERIF_REPO="$R" ./check "$ID" "$TIER" -evidence /dev/null -replays /dev/shm/seedtest-replays.$$ 2>&1); RC=$?
  SIGS=$(echo "$OUT" | grep -o 'signature=[^ ]*' | sort -u | tr '\n' ' ')
  echo "$(basename "$D") check=$ID tier=$TIER exit=$RC $SIGS"
  [ $RC -eq 2 ] && echo "$OUT" | tail -5
done
rm -rf /dev/shm/seedtest-replays.$$
