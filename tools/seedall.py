#!/usr/bin/env python3
"""Runs every seeded change against its property's check (and extra checks listed on the
command line as ID=check1,check2), records the outcome in seeded/<id>/meta.json and
regenerates seeded/INDEX.md."""
import json, os, subprocess, sys, glob
HERE = os.path.dirname(os.path.dirname(os.path.abspath(__file__)))
only = [a for a in sys.argv[1:] if "=" not in a]
extra = dict(a.split("=") for a in sys.argv[1:] if "=" in a)
rows = []
for d in sorted(glob.glob(os.path.join(HERE, "seeded", "C*-*"))):
    sid = os.path.basename(d)
    meta = json.load(open(os.path.join(d, "meta.json")))
    if only and sid not in only:
        rows.append((sid, meta)); continue
    checks = [meta["property"]] + [c for c in extra.get(sid, "").split(",") if c]
    out = subprocess.run([os.path.join(HERE, "tools", "seedtest.sh"), d] + checks, capture_output=True, text=True).stdout
    det = []
    for line in out.splitlines():
        if line.startswith(sid + " check="):
            parts = line.split()
            chk = parts[1].split("=")[1]; rc = int(parts[3].split("=")[1])
            sigs = [p.split("=", 1)[1] for p in parts[4:] if p.startswith("signature=")]
            det.append({"check": chk, "tier": parts[2].split("=")[1], "exit": rc, "signatures": sigs})
    meta["detected_by"] = det
    meta["ran"] = "tools/seedtest.sh (patch applied to a scratch worktree of /repo HEAD, ./check <id> quick against it, worktree removed)"
    json.dump(meta, open(os.path.join(d, "meta.json"), "w"), indent=1)
    print(sid, [(x["check"], x["exit"]) for x in det], flush=True)
    rows.append((sid, meta))
with open(os.path.join(HERE, "seeded", "INDEX.md"), "w") as f:
    f.write("# Seeded property-breaking changes\n\nProduced by fresh sub-agents that saw only the property text and a scratch worktree; each was confirmed with `tools/seedverify.sh` (builds, whole existing suite passes, demonstration fails with / passes without) and run against the checks with `tools/seedtest.sh`.\n\n| id | property | needs to manifest | caught by (quick tier) | signatures |\n|---|---|---|---|---|\n")
    for sid, m in rows:
        det = m.get("detected_by", [])
        caught = ", ".join(x["check"] for x in det if x["exit"] == 1) or "**not caught**"
        sigs = "; ".join(s for x in det if x["exit"] == 1 for s in x["signatures"])
        f.write(f"| {sid} | {m['property']} | {m['needs_to_manifest']} | {caught} | {sigs} |\n")
