module verif/tools

go 1.23.0
