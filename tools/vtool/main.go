// vtool generates the `go build -overlay` file that puts the current /repo working tree
// under the verification harnesses without touching it:
//
//   - maps /verif/harness/<pkg> and /verif/shim/<pkg> into virtual packages
//     /repo/internal/verif/<pkg>;
//   - maps /verif/harness/exports/<path>/zz_verif_*.go into /repo/<path>/ (in-package exports);
//   - with -sched, rewrites the listed files so that sync, sync/atomic, go statements and
//     runtime.NumCPU go through the controlled scheduler (and, with -os, os through vos);
//   - with -const file:NAME=VALUE rewrites one constant/var initialiser (scaled copies).
//
// Usage: vtool overlay -repo /repo -verif /verif -out DIR [-sched f1,f2] [-os f1,f2] [-const f:N=V]...
// It prints the path of the overlay JSON. Any construct it cannot put under control is a
// hard error (exit 2), never a silent pass.
package main

import (
	"bytes"
	"encoding/json"
	"flag"
	"fmt"
	"go/ast"
	"go/parser"
	"go/printer"
	"go/token"
	"os"
	"path/filepath"
	"reflect"
	"sort"
	"strconv"
	"strings"
)

const modPath = "github.com/pgavlin/dawn"
const vroot = "internal/verif"

type multi []string

func (m *multi) String() string     { return strings.Join(*m, ",") }
func (m *multi) Set(s string) error { *m = append(*m, s); return nil }

func die(format string, a ...any) {
	fmt.Fprintf(os.Stderr, "vtool: "+format+"\n", a...)
	os.Exit(2)
}

func main() {
	if len(os.Args) < 2 || os.Args[1] != "overlay" {
		die("usage: vtool overlay ...")
	}
	fs := flag.NewFlagSet("overlay", flag.ExitOnError)
	repo := fs.String("repo", "/repo", "")
	verif := fs.String("verif", "/verif", "")
	out := fs.String("out", "", "scratch dir")
	sched := fs.String("sched", "", "comma list of repo-relative files to put under vsched")
	osf := fs.String("os", "", "comma list of repo-relative files whose os import becomes vos")
	allowChan := fs.String("allow-chan", "", "comma list of function names allowed to contain channel code")
	var consts, clones multi
	fs.Var(&consts, "const", "file:NAME=VALUE")
	fs.Var(&clones, "clone", "srcdir:dstname[:lit:OLD=NEW|:const:NAME=VALUE]...  scaled copy of a package as internal/verif/<dstname>")
	fs.Parse(os.Args[2:])
	if *out == "" {
		die("-out required")
	}
	if err := os.MkdirAll(*out, 0o755); err != nil {
		die("%v", err)
	}

	replace := map[string]string{}

	// virtual packages
	for _, top := range []string{"harness", "shim"} {
		base := filepath.Join(*verif, top)
		ents, err := os.ReadDir(base)
		if err != nil {
			die("%v", err)
		}
		for _, e := range ents {
			if !e.IsDir() || e.Name() == "exports" {
				continue
			}
			addTree(replace, filepath.Join(base, e.Name()), filepath.Join(*repo, vroot, e.Name()))
		}
	}
	// in-package exports
	exp := filepath.Join(*verif, "harness", "exports")
	filepath.Walk(exp, func(p string, info os.FileInfo, err error) error {
		if err != nil || info.IsDir() || !strings.HasSuffix(p, ".go") {
			return nil
		}
		rel, _ := filepath.Rel(exp, p)
		replace[filepath.Join(*repo, rel)] = p
		return nil
	})

	type rw struct {
		sched, os bool
		consts    map[string]string
	}
	files := map[string]*rw{}
	get := func(f string) *rw {
		if files[f] == nil {
			files[f] = &rw{consts: map[string]string{}}
		}
		return files[f]
	}
	for _, f := range splitList(*sched) {
		get(f).sched = true
	}
	for _, f := range splitList(*osf) {
		get(f).os = true
	}
	for _, c := range consts {
		i := strings.Index(c, ":")
		j := strings.Index(c, "=")
		if i < 0 || j < i {
			die("bad -const %q", c)
		}
		get(c[:i]).consts[c[i+1:j]] = c[j+1:]
	}
	allow := map[string]bool{}
	for _, a := range splitList(*allowChan) {
		allow[a] = true
	}

	names := make([]string, 0, len(files))
	for f := range files {
		names = append(names, f)
	}
	sort.Strings(names)
	for _, f := range names {
		src := filepath.Join(*repo, f)
		dst := filepath.Join(*out, "rw_"+strings.ReplaceAll(f, "/", "__"))
		if err := rewrite(src, dst, files[f].sched, files[f].os, files[f].consts, allow); err != nil {
			die("%s: %v", f, err)
		}
		replace[src] = dst
	}

	for _, c := range clones {
		if err := clonePkg(*repo, *out, c, replace); err != nil {
			die("clone %s: %v", c, err)
		}
	}

	b, _ := json.MarshalIndent(map[string]any{"Replace": replace}, "", " ")
	op := filepath.Join(*out, "overlay.json")
	if err := os.WriteFile(op, b, 0o644); err != nil {
		die("%v", err)
	}
	fmt.Println(op)
}

// clonePkg writes rewritten copies of the non-test files of /repo/<srcdir> and maps them to
// the virtual package internal/verif/<dstname> (same package name, different import path),
// so that a harness can drive the real code and a scaled configuration in one binary.
func clonePkg(repo, out, spec string, replace map[string]string) error {
	parts := strings.Split(spec, ":")
	if len(parts) < 2 {
		return fmt.Errorf("bad spec")
	}
	src, dst := parts[0], parts[1]
	lits := map[string]string{}
	consts := map[string]string{}
	for i := 2; i+1 < len(parts); i += 2 {
		kv := strings.SplitN(parts[i+1], "=", 2)
		if len(kv) != 2 {
			return fmt.Errorf("bad rewrite %q", parts[i+1])
		}
		switch parts[i] {
		case "lit":
			lits[kv[0]] = kv[1]
		case "const":
			consts[kv[0]] = kv[1]
		default:
			return fmt.Errorf("bad rewrite kind %q", parts[i])
		}
	}
	ents, err := os.ReadDir(filepath.Join(repo, src))
	if err != nil {
		return err
	}
	hitL, hitC := map[string]int{}, map[string]int{}
	for _, e := range ents {
		n := e.Name()
		if e.IsDir() || !strings.HasSuffix(n, ".go") || strings.HasSuffix(n, "_test.go") {
			continue
		}
		fset := token.NewFileSet()
		f, err := parser.ParseFile(fset, filepath.Join(repo, src, n), nil, parser.ParseComments)
		if err != nil {
			return err
		}
		ast.Inspect(f, func(nd ast.Node) bool {
			switch x := nd.(type) {
			case *ast.BasicLit:
				if x.Kind == token.INT {
					if v, ok := lits[x.Value]; ok {
						hitL[x.Value]++
						x.Value = v
					}
				}
			case *ast.ValueSpec:
				for i, nm := range x.Names {
					if v, ok := consts[nm.Name]; ok && i < len(x.Values) {
						x.Values[i] = &ast.BasicLit{Kind: token.INT, Value: v}
						hitC[nm.Name]++
					}
				}
			}
			return true
		})
		var buf bytes.Buffer
		fmt.Fprintf(&buf, "// Code generated by vtool (scaled clone of %s/%s); DO NOT EDIT.\n", src, n)
		if err := printer.Fprint(&buf, fset, f); err != nil {
			return err
		}
		p := filepath.Join(out, "clone_"+dst+"_"+n)
		if err := os.WriteFile(p, buf.Bytes(), 0o644); err != nil {
			return err
		}
		replace[filepath.Join(repo, vroot, dst, n)] = p
	}
	for k := range lits {
		if hitL[k] == 0 {
			return fmt.Errorf("literal %s not found in %s", k, src)
		}
	}
	for k := range consts {
		if hitC[k] == 0 {
			return fmt.Errorf("constant %s not found in %s", k, src)
		}
	}
	return nil
}

func splitList(s string) []string {
	var r []string
	for _, x := range strings.Split(s, ",") {
		if x = strings.TrimSpace(x); x != "" {
			r = append(r, x)
		}
	}
	return r
}

func addTree(replace map[string]string, from, to string) {
	filepath.Walk(from, func(p string, info os.FileInfo, err error) error {
		if err != nil || info.IsDir() {
			return nil
		}
		if !strings.HasSuffix(p, ".go") {
			return nil
		}
		rel, _ := filepath.Rel(from, p)
		replace[filepath.Join(to, rel)] = p
		return nil
	})
}

func rewrite(src, dst string, sched, osw bool, consts map[string]string, allowChan map[string]bool) error {
	fset := token.NewFileSet()
	f, err := parser.ParseFile(fset, src, nil, parser.ParseComments)
	if err != nil {
		return err
	}
	needSched := false
	needChan := false

	// imports
	for _, im := range f.Imports {
		p, _ := strconv.Unquote(im.Path.Value)
		switch {
		case sched && p == "sync":
			if im.Name != nil && im.Name.Name != "sync" {
				return fmt.Errorf("renamed sync import not supported")
			}
			im.Path.Value = strconv.Quote(modPath + "/" + vroot + "/vsync")
			im.Name = ast.NewIdent("sync")
		case sched && p == "sync/atomic":
			if im.Name != nil && im.Name.Name != "atomic" {
				return fmt.Errorf("renamed atomic import not supported")
			}
			im.Path.Value = strconv.Quote(modPath + "/" + vroot + "/vatomic")
			im.Name = ast.NewIdent("atomic")
		case osw && p == "os":
			if im.Name != nil && im.Name.Name != "os" {
				return fmt.Errorf("renamed os import not supported")
			}
			im.Path.Value = strconv.Quote(modPath + "/" + vroot + "/vos")
			im.Name = ast.NewIdent("os")
		case sched && (p == "time"):
			// time is allowed only inside allow-listed functions; checked below.
		}
	}

	var rerr error
	fail := func(pos token.Pos, format string, a ...any) {
		if rerr == nil {
			rerr = fmt.Errorf("%s: %s", fset.Position(pos), fmt.Sprintf(format, a...))
		}
	}

	if sched {
		for _, d := range f.Decls {
			fd, ok := d.(*ast.FuncDecl)
			if !ok || fd.Body == nil {
				continue
			}
			allowed := allowChan[fd.Name.Name]
			if fd.Recv != nil && len(fd.Recv.List) == 1 {
				allowed = allowed || allowChan[recvName(fd.Recv.List[0].Type)+"."+fd.Name.Name]
			}
			// uncontrollable constructs
			ast.Inspect(fd.Body, func(n ast.Node) bool {
				if allowed {
					return false
				}
				switch x := n.(type) {
				case *ast.SelectStmt:
					fail(x.Pos(), "select in instrumented code (func %s)", fd.Name.Name)
				case *ast.RangeStmt:
					// ranging over a channel cannot be told apart syntactically from other ranges
					// without types; channel-typed values only appear with make(chan) in these files.
				case *ast.CallExpr:
					if se, ok := x.Fun.(*ast.SelectorExpr); ok {
						if id, ok := se.X.(*ast.Ident); ok && id.Name == "time" && (se.Sel.Name == "Sleep" || se.Sel.Name == "After" || se.Sel.Name == "NewTicker" || se.Sel.Name == "NewTimer" || se.Sel.Name == "Tick") {
							fail(x.Pos(), "time.%s in instrumented code (func %s)", se.Sel.Name, fd.Name.Name)
						}
					}
				}
				return true
			})
			if allowed {
				continue
			}
			// go statements and runtime.NumCPU
			rewriteStmts(fd.Body, &needSched, fail)
			if rewriteChans(fd) {
				needChan = true
			}
		}
		// runtime.NumCPU anywhere (expressions)
		ast.Inspect(f, func(n ast.Node) bool {
			if ce, ok := n.(*ast.CallExpr); ok {
				if se, ok := ce.Fun.(*ast.SelectorExpr); ok {
					if id, ok := se.X.(*ast.Ident); ok && id.Name == "runtime" && se.Sel.Name == "NumCPU" {
						id.Name = "vsched"
						needSched = true
					}
				}
			}
			return true
		})
	}

	// constants
	for name, val := range consts {
		found := false
		for _, d := range f.Decls {
			gd, ok := d.(*ast.GenDecl)
			if !ok || (gd.Tok != token.CONST && gd.Tok != token.VAR) {
				continue
			}
			for _, s := range gd.Specs {
				vs := s.(*ast.ValueSpec)
				for i, n := range vs.Names {
					if n.Name == name && i < len(vs.Values) {
						vs.Values[i] = &ast.BasicLit{Kind: token.INT, Value: val}
						found = true
					}
				}
			}
		}
		if !found {
			return fmt.Errorf("constant %s not found", name)
		}
	}
	if rerr != nil {
		return rerr
	}

	if sched {
		// channel types in declarations outside functions (struct fields, package variables)
		for _, d := range f.Decls {
			if gd, ok := d.(*ast.GenDecl); ok && gd.Tok != token.IMPORT {
				if rewriteChans(gd) {
					needChan = true
				}
			}
		}
	}
	if needChan {
		addImport(f, "vchan", modPath+"/"+vroot+"/vsync")
	}
	if needSched {
		addImport(f, "vsched", modPath+"/"+vroot+"/vsched")
	}
	// drop imports that became unused (runtime)
	if sched {
		dropUnusedImport(f, "runtime")
	}

	var buf bytes.Buffer
	fmt.Fprintf(&buf, "// Code generated by vtool from %s; DO NOT EDIT.\n", src)
	if err := printer.Fprint(&buf, fset, f); err != nil {
		return err
	}
	return os.WriteFile(dst, buf.Bytes(), 0o644)
}

// rewriteChans rewrites channel types and operations below n to the vsync.Chan model:
//
//	chan T                -> *vchan.Chan[T]
//	make(chan T[, n])     -> vchan.MakeChan[T]([n])
//	ch <- v               -> ch.Send(v)
//	<-ch                  -> ch.Recv()        (v, ok := <-ch -> ch.Recv2())
//	close(ch)             -> ch.Close()
//
// select (and range over a channel) stay unsupported and are refused by the caller.
func rewriteChans(n ast.Node) bool {
	used := false
	chanType := func(ct *ast.ChanType) ast.Expr {
		used = true
		return &ast.StarExpr{X: &ast.IndexExpr{X: &ast.SelectorExpr{X: ast.NewIdent("vchan"), Sel: ast.NewIdent("Chan")}, Index: ct.Value}}
	}
	fe := func(e ast.Expr) ast.Expr {
		switch x := e.(type) {
		case *ast.ChanType:
			return chanType(x)
		case *ast.UnaryExpr:
			if x.Op == token.ARROW {
				used = true
				return &ast.CallExpr{Fun: &ast.SelectorExpr{X: x.X, Sel: ast.NewIdent("Recv")}}
			}
		case *ast.CallExpr:
			if id, ok := x.Fun.(*ast.Ident); ok {
				switch {
				case id.Name == "make" && len(x.Args) > 0:
					// the element type was already rewritten to *vchan.Chan[T]
					if st, ok := x.Args[0].(*ast.StarExpr); ok {
						if ix, ok := st.X.(*ast.IndexExpr); ok {
							if se, ok := ix.X.(*ast.SelectorExpr); ok && se.Sel.Name == "Chan" {
								if pk, ok := se.X.(*ast.Ident); ok && pk.Name == "vchan" {
									x.Fun = &ast.IndexExpr{X: &ast.SelectorExpr{X: ast.NewIdent("vchan"), Sel: ast.NewIdent("MakeChan")}, Index: ix.Index}
									x.Args = x.Args[1:]
								}
							}
						}
					}
				case id.Name == "close" && len(x.Args) == 1:
					used = true
					x.Fun = &ast.SelectorExpr{X: x.Args[0], Sel: ast.NewIdent("Close")}
					x.Args = nil
				}
			}
		}
		return e
	}
	fs := func(st ast.Stmt) ast.Stmt {
		switch x := st.(type) {
		case *ast.SendStmt:
			used = true
			return &ast.ExprStmt{X: &ast.CallExpr{Fun: &ast.SelectorExpr{X: x.Chan, Sel: ast.NewIdent("Send")}, Args: []ast.Expr{x.Value}}}
		case *ast.AssignStmt:
			// v, ok := <-ch   (the receive was already rewritten to ch.Recv())
			if len(x.Lhs) == 2 && len(x.Rhs) == 1 {
				if ce, ok := x.Rhs[0].(*ast.CallExpr); ok {
					if se, ok := ce.Fun.(*ast.SelectorExpr); ok && se.Sel.Name == "Recv" && len(ce.Args) == 0 {
						se.Sel = ast.NewIdent("Recv2")
					}
				}
			}
		}
		return st
	}
	transform(reflect.ValueOf(n), fe, fs)
	return used
}

var exprType = reflect.TypeOf((*ast.Expr)(nil)).Elem()
var stmtType = reflect.TypeOf((*ast.Stmt)(nil)).Elem()

// transform walks an AST post-order and replaces every expression / statement by f(it).
func transform(v reflect.Value, fe func(ast.Expr) ast.Expr, fs func(ast.Stmt) ast.Stmt) {
	switch v.Kind() {
	case reflect.Ptr, reflect.Interface:
		if v.IsNil() {
			return
		}
		transform(v.Elem(), fe, fs)
	case reflect.Slice:
		for i := 0; i < v.Len(); i++ {
			transformSlot(v.Index(i), fe, fs)
		}
	case reflect.Struct:
		t := v.Type()
		if t.PkgPath() != "go/ast" {
			return
		}
		for i := 0; i < v.NumField(); i++ {
			f := v.Field(i)
			if !f.CanSet() || t.Field(i).Name == "Obj" || t.Field(i).Name == "Scope" || t.Field(i).Name == "Unresolved" || t.Field(i).Name == "Comments" || t.Field(i).Name == "Doc" || t.Field(i).Name == "Comment" {
				continue
			}
			transformSlot(f, fe, fs)
		}
	}
}

func transformSlot(f reflect.Value, fe func(ast.Expr) ast.Expr, fs func(ast.Stmt) ast.Stmt) {
	switch {
	case f.Type() == exprType:
		if f.IsNil() {
			return
		}
		transform(f, fe, fs)
		f.Set(reflect.ValueOf(fe(f.Interface().(ast.Expr))))
	case f.Type() == stmtType:
		if f.IsNil() {
			return
		}
		transform(f, fe, fs)
		f.Set(reflect.ValueOf(fs(f.Interface().(ast.Stmt))))
	default:
		switch f.Kind() {
		case reflect.Ptr:
			if !f.IsNil() {
				// concrete node pointers (e.g. *ast.CallExpr in defer/go, *ast.BlockStmt): rewritten in place
				transform(f, fe, fs)
				if ce, ok := f.Interface().(*ast.CallExpr); ok {
					fe(ce)
				}
			}
		case reflect.Slice, reflect.Struct, reflect.Interface:
			transform(f, fe, fs)
		}
	}
}

func recvName(e ast.Expr) string {
	switch x := e.(type) {
	case *ast.StarExpr:
		return recvName(x.X)
	case *ast.Ident:
		return x.Name
	case *ast.IndexExpr:
		return recvName(x.X)
	}
	return ""
}

// rewriteStmts replaces `go call` by `vsched.Go(func(){ call })` in every statement list.
func rewriteStmts(body *ast.BlockStmt, needSched *bool, fail func(token.Pos, string, ...any)) {
	var fix func(list []ast.Stmt)
	fix = func(list []ast.Stmt) {
		for i, s := range list {
			if g, ok := s.(*ast.GoStmt); ok {
				for _, a := range g.Call.Args {
					switch a.(type) {
					case *ast.Ident, *ast.SelectorExpr, *ast.BasicLit:
					default:
						fail(a.Pos(), "go statement argument too complex to defer into a closure")
					}
				}
				*needSched = true
				list[i] = &ast.ExprStmt{X: &ast.CallExpr{
					Fun: &ast.SelectorExpr{X: ast.NewIdent("vsched"), Sel: ast.NewIdent("Go")},
					Args: []ast.Expr{&ast.FuncLit{
						Type: &ast.FuncType{Params: &ast.FieldList{}},
						Body: &ast.BlockStmt{List: []ast.Stmt{&ast.ExprStmt{X: g.Call}}},
					}},
				}}
			}
		}
	}
	ast.Inspect(body, func(n ast.Node) bool {
		switch x := n.(type) {
		case *ast.BlockStmt:
			fix(x.List)
		case *ast.CaseClause:
			fix(x.Body)
		case *ast.CommClause:
			fix(x.Body)
		}
		return true
	})
}

func addImport(f *ast.File, name, path string) {
	spec := &ast.ImportSpec{Name: ast.NewIdent(name), Path: &ast.BasicLit{Kind: token.STRING, Value: strconv.Quote(path)}}
	for _, d := range f.Decls {
		if gd, ok := d.(*ast.GenDecl); ok && gd.Tok == token.IMPORT {
			gd.Specs = append(gd.Specs, spec)
			if gd.Lparen == token.NoPos {
				gd.Lparen = gd.Pos()
				gd.Rparen = gd.End()
			}
			f.Imports = append(f.Imports, spec)
			return
		}
	}
	gd := &ast.GenDecl{Tok: token.IMPORT, Specs: []ast.Spec{spec}}
	f.Decls = append([]ast.Decl{gd}, f.Decls...)
	f.Imports = append(f.Imports, spec)
}

func dropUnusedImport(f *ast.File, name string) {
	used := false
	ast.Inspect(f, func(n ast.Node) bool {
		if se, ok := n.(*ast.SelectorExpr); ok {
			if id, ok := se.X.(*ast.Ident); ok && id.Name == name {
				used = true
			}
		}
		return true
	})
	if used {
		return
	}
	for _, d := range f.Decls {
		gd, ok := d.(*ast.GenDecl)
		if !ok || gd.Tok != token.IMPORT {
			continue
		}
		var keep []ast.Spec
		for _, s := range gd.Specs {
			is := s.(*ast.ImportSpec)
			p, _ := strconv.Unquote(is.Path.Value)
			if p == name && is.Name == nil {
				continue
			}
			keep = append(keep, s)
		}
		gd.Specs = keep
	}
}
