#!/bin/bash
# Builds the tools and pre-warms the Go build cache (offline).
set -eu
export GOFLAGS=-mod=mod GOPROXY=off GOSUMDB=off GOTOOLCHAIN=local
VERIF=$(cd "$(dirname "$0")" && pwd)
REPO=${VERIF_REPO:-/repo}
mkdir -p "$VERIF/bin" "$VERIF/evidence" "$VERIF/replays"
(cd "$VERIF/tools" && go build -o "$VERIF/bin/vtool" ./vtool)
# warm the cache: build dawn and its tests' dependencies once
(cd "$REPO" && go build ./... >/dev/null 2>&1 || true)
# warm the race-detector build of the packages the race passes need
(cd "$REPO" && go build -race . ./runner >/dev/null 2>&1 || true)
echo setup done
